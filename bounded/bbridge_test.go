package ysgo

// Bounded stand-in B-bridge (injected with go test -overlay; nothing is written to /repo).
//
// Stands in for newYarnSpinnerFunction / newYarnSpinnerCommand and their converters (reflection: outside the
// verifier's subset), property C16. Function types are built with reflect.FuncOf and implemented with
// reflect.MakeFunc, so the family is enumerated rather than hand-written. The oracle is the property's text:
//   registration succeeds iff the value is a non-nil function whose parameters (and variadic tail) have a
//   number / boolean / string kind (named types included) and whose results are bridgeable;
//   a call yields an error iff the argument count or an argument's type does not fit; otherwise the Go function
//   receives exactly the converted arguments and its result or error comes back converted;
//   nothing panics.

import (
	"errors"
	"fmt"
	"os"
	"reflect"
	"strconv"
	"testing"
	"time"

	"github.com/remieven/ysgo/variable"
)

type (
	bbInt    int
	bbInt8   int8
	bbFloat  float64
	bbBool   bool
	bbString string
	bbErr    struct{ msg string }
	bbStruct struct{ A int }
)

func (e bbErr) Error() string { return e.msg }

var bbErrorType = reflect.TypeOf((*error)(nil)).Elem()

type bbType struct {
	t    reflect.Type
	kind string // number boolean string other
}

func bbKind(t reflect.Type) string {
	switch t.Kind() {
	case reflect.Int, reflect.Int8, reflect.Int16, reflect.Int32, reflect.Int64, reflect.Float32, reflect.Float64:
		return "number"
	case reflect.Bool:
		return "boolean"
	case reflect.String:
		return "string"
	}
	return "other"
}

func bbCanned(t reflect.Type) reflect.Value {
	switch bbKind(t) {
	case "number":
		return reflect.ValueOf(7).Convert(t)
	case "boolean":
		return reflect.ValueOf(true).Convert(t)
	case "string":
		return reflect.ValueOf("r").Convert(t)
	}
	return reflect.Zero(t)
}

func bbArg(kind string, i int) *variable.Value {
	switch kind {
	case "number":
		return variable.NewNumber(float64(3 + i))
	case "boolean":
		return variable.NewBoolean(i%2 == 0)
	}
	return variable.NewString("s" + strconv.Itoa(i))
}

func bbExpected(a *variable.Value, t reflect.Type) reflect.Value {
	switch {
	case a.Number != nil:
		return reflect.ValueOf(*a.Number).Convert(t)
	case a.Boolean != nil:
		return reflect.ValueOf(*a.Boolean).Convert(t)
	}
	return reflect.ValueOf(*a.String).Convert(t)
}

type bbDone chan error
type bbRecvDone <-chan error

type bbResult struct {
	name  string
	types []reflect.Type
	err   bool // the canned error result is non-nil
}

func TestBoundedBridge(t *testing.T) {
	thorough := os.Getenv("VERIF_TIER") == "thorough"
	universe := []reflect.Type{reflect.TypeOf(int(0)), reflect.TypeOf(int8(0)), reflect.TypeOf(int16(0)), reflect.TypeOf(int32(0)), reflect.TypeOf(int64(0)),
		reflect.TypeOf(float32(0)), reflect.TypeOf(float64(0)), reflect.TypeOf(false), reflect.TypeOf(""),
		reflect.TypeOf(bbInt(0)), reflect.TypeOf(bbInt8(0)), reflect.TypeOf(bbFloat(0)), reflect.TypeOf(bbBool(false)), reflect.TypeOf(bbString("")),
		reflect.TypeOf(uint(0)), reflect.TypeOf(bbStruct{}), reflect.TypeOf([]int(nil))}
	maxArity := 2
	if thorough {
		maxArity = 3
	}
	var paramLists [][]reflect.Type
	var rec func(cur []reflect.Type)
	nth := 0
	rec = func(cur []reflect.Type) {
		nth++
		if len(cur) < 3 || nth%50 == 0 { // thorough: one in fifty of the three-parameter lists
			paramLists = append(paramLists, append([]reflect.Type(nil), cur...))
		}
		if len(cur) == maxArity {
			return
		}
		for _, u := range universe {
			rec(append(cur, u))
		}
	}
	rec(nil)
	funcResults := []bbResult{{"none", nil, false}, {"int", []reflect.Type{universe[0]}, false}, {"float32", []reflect.Type{universe[5]}, false}, {"bool", []reflect.Type{universe[7]}, false},
		{"string", []reflect.Type{universe[8]}, false}, {"named-int", []reflect.Type{universe[9]}, false}, {"named-string", []reflect.Type{universe[13]}, false},
		{"error-nil", []reflect.Type{bbErrorType}, false}, {"error-set", []reflect.Type{bbErrorType}, true}, {"concrete-error", []reflect.Type{reflect.TypeOf(bbErr{})}, true},
		{"value-error-nil", []reflect.Type{universe[0], bbErrorType}, false}, {"value-error-set", []reflect.Type{universe[8], bbErrorType}, true},
		{"uint", []reflect.Type{universe[14]}, false}, {"struct", []reflect.Type{universe[15]}, false}, {"three", []reflect.Type{universe[0], universe[0], bbErrorType}, false},
		{"error-value", []reflect.Type{bbErrorType, universe[0]}, false}}
	cmdResults := []bbResult{{"none", nil, false}, {"error-nil", []reflect.Type{bbErrorType}, false}, {"error-set", []reflect.Type{bbErrorType}, true},
		{"chan", []reflect.Type{reflect.TypeOf((chan error)(nil))}, true}, {"recv-chan", []reflect.Type{reflect.TypeOf((<-chan error)(nil))}, false},
		{"int", []reflect.Type{universe[0]}, false}, {"two", []reflect.Type{bbErrorType, bbErrorType}, false},
		// channels an error cannot be received from, or whose elements are not the error interface: not bridgeable;
		// named channel types of errors: bridgeable
		{"send-chan", []reflect.Type{reflect.TypeOf((chan<- error)(nil))}, false}, {"named-chan", []reflect.Type{reflect.TypeOf(bbDone(nil))}, true},
		{"concrete-error-chan", []reflect.Type{reflect.TypeOf((chan bbErr)(nil))}, false}, {"named-recv-chan", []reflect.Type{reflect.TypeOf(bbRecvDone(nil))}, false},
		{"concrete-error-recv-chan", []reflect.Type{reflect.TypeOf((<-chan bbErr)(nil))}, true}, {"int-chan", []reflect.Type{reflect.TypeOf((chan int)(nil))}, false}}
	var argLists [][]string
	var recA func(cur []string)
	recA = func(cur []string) {
		argLists = append(argLists, append([]string(nil), cur...))
		if len(cur) == 4 || (!thorough && len(cur) == 3) {
			return
		}
		for _, k := range []string{"number", "boolean", "string"} {
			recA(append(cur, k))
		}
	}
	recA(nil)

	cases, regs, viol := 0, 0, 0
	report := func(kind, what string) {
		if viol < 6 {
			viol++
			fmt.Printf("BOUNDED-VIOLATION %s %s\n", kind, strconv.Quote(what))
		}
	}
	guard := func(kind, what string, f func()) {
		defer func() {
			if r := recover(); r != nil {
				report("panic-"+kind, fmt.Sprintf("%s: panic %v", what, r))
			}
		}()
		f()
	}
	// values that are not (usable) functions
	for _, v := range []any{nil, 3, "f", struct{}{}, (func())(nil), (func(int) error)(nil), []int{1}} {
		v := v
		guard("registration", fmt.Sprintf("ConvertAndAdd of %#v", v), func() {
			if _, err := newYarnSpinnerFunction(v); err == nil {
				report("registration", fmt.Sprintf("newYarnSpinnerFunction(%#v) succeeded", v))
			}
			if _, err := newYarnSpinnerCommand(v); err == nil {
				report("registration", fmt.Sprintf("newYarnSpinnerCommand(%#v) succeeded", v))
			}
		})
		cases += 2
	}
	sampleN := 0
	for _, params := range paramLists {
		for variadic := -1; variadic < len(universe); variadic++ {
			if variadic >= 0 && len(params) >= 2 && len(params) == maxArity && variadic%3 != 0 {
				continue // quick: a third of the variadic tails on the longest lists
			}
			in := append([]reflect.Type(nil), params...)
			paramsOK := true
			for _, p := range params {
				paramsOK = paramsOK && bbKind(p) != "other"
			}
			if variadic >= 0 {
				in = append(in, reflect.SliceOf(universe[variadic]))
				paramsOK = paramsOK && bbKind(universe[variadic]) != "other"
			}
			for isCmd := 0; isCmd < 2; isCmd++ {
				results := funcResults
				if isCmd == 1 {
					results = cmdResults
				}
				for ri, res := range results {
					if len(params) == maxArity && len(params) >= 2 && ri%2 == 1 {
						continue
					}
					ft := reflect.FuncOf(in, res.types, variadic >= 0)
					resOK := false
					switch {
					case isCmd == 0:
						switch len(res.types) {
						case 0:
							resOK = true
						case 1:
							resOK = bbKind(res.types[0]) != "other" || res.types[0].ConvertibleTo(bbErrorType)
						case 2:
							resOK = bbKind(res.types[0]) != "other" && res.types[1].ConvertibleTo(bbErrorType)
						}
					default:
						switch len(res.types) {
						case 0:
							resOK = true
						case 1:
							// an error, or a channel from which an error can be received (taken from the property, not from the gate's code)
							resOK = res.types[0].ConvertibleTo(bbErrorType) || res.types[0].ConvertibleTo(reflect.TypeOf((<-chan error)(nil)))
						}
					}
					var got []reflect.Value
					called := 0
					impl := reflect.MakeFunc(ft, func(args []reflect.Value) []reflect.Value {
						called++
						got = args
						var out []reflect.Value
						for _, rt := range res.types {
							switch {
							case rt == bbErrorType && res.err:
								out = append(out, reflect.ValueOf(errors.New("boom")).Convert(rt))
							case rt == reflect.TypeOf(bbErr{}):
								out = append(out, reflect.ValueOf(bbErr{"boom"}))
							case rt.Kind() == reflect.Chan:
								ch := reflect.MakeChan(reflect.ChanOf(reflect.BothDir, rt.Elem()), 1)
								switch {
								case !res.err:
									ch.Send(reflect.Zero(rt.Elem()))
								case rt.Elem() == bbErrorType:
									ch.Send(reflect.ValueOf(errors.New("boom")).Convert(rt.Elem()))
								case rt.Elem() == reflect.TypeOf(bbErr{}):
									ch.Send(reflect.ValueOf(bbErr{"boom"}))
								default:
									ch.Send(reflect.Zero(rt.Elem()))
								}
								out = append(out, ch.Convert(rt))
							default:
								out = append(out, bbCanned(rt))
							}
						}
						return out
					})
					what := fmt.Sprintf("%v (command=%v)", ft, isCmd == 1)
					var fn YarnSpinnerFunction
					var cmd YarnSpinnerCommand
					var regErr error
					regs++
					guard("registration", what, func() {
						if isCmd == 0 {
							fn, regErr = newYarnSpinnerFunction(impl.Interface())
						} else {
							cmd, regErr = newYarnSpinnerCommand(impl.Interface())
						}
					})
					cases++
					wantReg := paramsOK && resOK
					if (regErr == nil) != wantReg {
						report("registration", fmt.Sprintf("%s: registration error = %v, bridgeable = %v", what, regErr, wantReg))
						continue
					}
					if regErr != nil || (fn == nil && cmd == nil) {
						continue
					}
					if sampleN < 3 {
						sampleN++
						fmt.Printf("BOUNDED-SAMPLE %s\n", strconv.Quote(what))
					}
					for _, al := range argLists {
						cases++
						args := make([]*variable.Value, len(al))
						for i, k := range al {
							args[i] = bbArg(k, i)
						}
						// expectation
						fixed := len(params)
						wantErr := false
						if variadic < 0 {
							wantErr = len(al) != fixed
						} else {
							wantErr = len(al) < fixed
						}
						if !wantErr {
							for i, k := range al {
								pt := universe[0]
								if i < fixed {
									pt = params[i]
								} else {
									pt = universe[variadic]
								}
								if bbKind(pt) != k {
									wantErr = true
								}
							}
						}
						called, got = 0, nil
						callWhat := fmt.Sprintf("%s called with %v", what, al)
						guard("call", callWhat, func() {
							var v *variable.Value
							var err error
							if isCmd == 0 {
								v, err = fn(args)
							} else {
								select {
								case err = <-cmd(args):
								case <-time.After(2 * time.Second):
									report("call", callWhat+": the command's channel never delivered")
									return
								}
							}
							if wantErr {
								if err == nil {
									report("call", callWhat+": wrong argument count or type accepted")
								}
								if called != 0 {
									report("call", callWhat+": the Go function ran although the arguments do not fit")
								}
								return
							}
							if called != 1 {
								report("call", fmt.Sprintf("%s: the Go function ran %d times (err=%v)", callWhat, called, err))
								return
							}
							// arguments arrived converted
							var flat []reflect.Value
							for i, g := range got {
								if variadic >= 0 && i == len(got)-1 {
									for j := 0; j < g.Len(); j++ {
										flat = append(flat, g.Index(j))
									}
								} else {
									flat = append(flat, g)
								}
							}
							if len(flat) != len(al) {
								report("call", fmt.Sprintf("%s: %d arguments arrived", callWhat, len(flat)))
								return
							}
							for i := range flat {
								pt := flat[i].Type()
								if want := bbExpected(args[i], pt); !reflect.DeepEqual(want.Interface(), flat[i].Interface()) {
									report("call", fmt.Sprintf("%s: argument %d arrived as %v, wanted %v", callWhat, i, flat[i], want))
								}
							}
							// result or error came back
							wantCallErr := res.err && len(res.types) > 0
							if (err != nil) != wantCallErr {
								report("call", fmt.Sprintf("%s: error = %v, the Go function's error result set = %v", callWhat, err, wantCallErr))
								return
							}
							if isCmd == 0 && err == nil {
								hasValue := len(res.types) > 0 && bbKind(res.types[0]) != "other"
								switch {
								case !hasValue && v != nil:
									report("call", callWhat+": a value came back from a function without one")
								case hasValue && v == nil:
									report("call", callWhat+": no value came back")
								case hasValue:
									ok := false
									switch bbKind(res.types[0]) {
									case "number":
										ok = v.Number != nil && *v.Number == 7
									case "boolean":
										ok = v.Boolean != nil && *v.Boolean
									case "string":
										ok = v.String != nil && *v.String == "r"
									}
									if !ok {
										report("call", fmt.Sprintf("%s: result came back as %+v", callWhat, *v))
									}
								}
							}
						})
					}
				}
			}
		}
	}
	fmt.Printf("BOUNDED-CASES %d exhaustive=false distinct=%d\n", cases, cases)
	_ = regs
}
