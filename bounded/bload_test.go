package tree

// Bounded stand-in B-load (injected with go test -overlay; nothing is written to /repo).
//
// Stands in for the assumed contract of FromReader for property C05: for every input FromReaders returns
// without panicking; it returns an error exactly when the input is not a syntactically valid script. The
// oracle for "syntactically valid" is built here, independently of FromReader's own plumbing: a fresh lexer and
// parser of the same grammar with a counting error listener, every token consumed up to EOF apart from
// trailing layout tokens, no indentation mixing tabs and spaces, at least one node.

import (
	"fmt"
	"math/rand"
	"os"
	"path/filepath"
	"strconv"
	"strings"
	"testing"

	"github.com/antlr4-go/antlr/v4"
	"github.com/remieven/ysgo/internal/parser"
)

type countingListener struct {
	*antlr.DefaultErrorListener
	n int
}

func (c *countingListener) SyntaxError(_ antlr.Recognizer, _ interface{}, _, _ int, _ string, _ antlr.RecognitionException) {
	c.n++
}

// oracleValid: (valid, decided). decided is false when the oracle itself panicked (mixed indentation is then invalid).
func oracleValid(s string) (valid bool) {
	defer func() {
		if r := recover(); r != nil {
			valid = false // the lexer's indentation panic, or a parser crash: not a valid script
		}
	}()
	cl := &countingListener{}
	lexer := parser.NewYarnSpinnerLexer(antlr.NewInputStream(s))
	lexer.RemoveErrorListeners()
	lexer.AddErrorListener(cl)
	stream := antlr.NewCommonTokenStream(lexer, antlr.LexerDefaultTokenChannel)
	p := parser.NewYarnSpinnerParser(stream)
	p.RemoveErrorListeners()
	p.AddErrorListener(cl)
	tree := p.Dialogue()
	if cl.n > 0 {
		return false
	}
	for t := stream.LT(1); t.GetTokenType() != antlr.TokenEOF; t = stream.LT(1) {
		switch t.GetTokenType() {
		case parser.YarnSpinnerLexerNEWLINE, parser.YarnSpinnerLexerINDENT, parser.YarnSpinnerLexerDEDENT:
			stream.Consume()
		default:
			return false
		}
	}
	nodes := 0
	for _, c := range tree.GetChildren() {
		if _, ok := c.(*parser.NodeContext); ok {
			nodes++
		}
	}
	return nodes >= 1
}

func loadOnce(readers []string) (err error, pan any) {
	defer func() {
		if r := recover(); r != nil {
			pan = r
		}
	}()
	var d *Dialogue
	switch len(readers) {
	case 1:
		d, err = FromReaders(strings.NewReader(readers[0]))
	default:
		d, err = FromReaders(strings.NewReader(readers[0]), strings.NewReader(readers[1]))
	}
	if err == nil && (d == nil || len(d.Nodes) == 0) {
		err = nil
		pan = "no error but no usable dialogue"
	}
	return
}

func TestBoundedLoad(t *testing.T) {
	seed, _ := strconv.Atoi(os.Getenv("VERIF_SEED"))
	thorough := os.Getenv("VERIF_TIER") == "thorough"
	r := rand.New(rand.NewSource(int64(seed)*104729 + 3))
	cases, viol, nValid, nInvalid := 0, 0, 0, 0
	distinct := map[string]bool{}
	check := func(kind string, s string) {
		cases++
		if distinct[s] {
			return
		}
		distinct[s] = true
		want := oracleValid(s)
		err, pan := loadOnce([]string{s})
		if want {
			nValid++
		} else {
			nInvalid++
		}
		bad := ""
		switch {
		case pan != nil:
			bad = fmt.Sprintf("panic or unusable result: %v", pan)
		case want && err != nil:
			bad = "a syntactically valid script is refused: " + err.Error()
		case !want && err == nil:
			bad = "an input that is not a valid script is loaded without error"
		}
		if bad != "" && viol < 5 {
			viol++
			fmt.Printf("BOUNDED-VIOLATION %s %s\n", kind, strconv.Quote(fmt.Sprintf("%s: input=%q", bad, s)))
		}
	}
	// 1. every string up to a length over an alphabet of structurally relevant fragments, after a valid prefix or alone
	alphabet := []string{"title: A\n", "---\n", "===\n", "x\n", "-> o\n", "    ", "\t", "\n", "<<if true>>\n", "<<endif>>\n", "<<", ">>", "{", "}", "#", "$v", "\"", "\r\n", "\xff", "<<set $v = 1>>\n", "<<jump A>>\n", "// c\n", "[b]", " "}
	maxLen := 3
	if thorough {
		maxLen = 4
	}
	var rec func(prefix string, n int)
	rec = func(prefix string, n int) {
		check("enumerated", prefix)
		check("enumerated-after-header", "title: A\n---\n"+prefix)
		check("enumerated-after-node", "title: A\n---\nx\n===\n"+prefix)
		if n == 0 {
			return
		}
		for _, a := range alphabet {
			rec(prefix+a, n-1)
		}
	}
	rec("", maxLen)
	// 2. the fixture scripts and single-line deletions / duplications / swaps / truncations of them
	files, _ := filepath.Glob("../../testdata/*.yarn")
	for _, f := range files {
		data, err := os.ReadFile(f)
		if err != nil {
			continue
		}
		s := string(data)
		check("fixture", s)
		lines := strings.SplitAfter(s, "\n")
		n := 40
		if thorough {
			n = 400
		}
		for i := 0; i < n; i++ {
			k := r.Intn(len(lines))
			var m []string
			switch r.Intn(5) {
			case 0: // delete a line
				m = append(append(m, lines[:k]...), lines[k+1:]...)
			case 1: // duplicate a line
				m = append(append(append(m, lines[:k+1]...), lines[k]), lines[k+1:]...)
			case 2: // swap with the next
				m = append(m, lines...)
				if k+1 < len(m) {
					m[k], m[k+1] = m[k+1], m[k]
				}
			case 3: // truncate
				m = append(m, lines[:k]...)
			default: // corrupt one byte
				m = append(m, lines...)
				if len(m[k]) > 0 {
					b := []byte(m[k])
					b[r.Intn(len(b))] = "<>{}#$\"\t =-"[r.Intn(11)]
					m[k] = string(b)
				}
			}
			check("fixture-mutation", strings.Join(m, ""))
		}
		// reader splits at node boundaries: each part is a script of its own
		parts := strings.SplitAfter(s, "===\n")
		if len(parts) > 2 {
			k := 1 + r.Intn(len(parts)-2)
			a, b := strings.Join(parts[:k], ""), strings.Join(parts[k:], "")
			cases++
			want := oracleValid(a) && oracleValid(b)
			err, pan := loadOnce([]string{a, b})
			if (pan != nil || (want != (err == nil))) && viol < 5 {
				viol++
				fmt.Printf("BOUNDED-VIOLATION reader-split %s\n", strconv.Quote(fmt.Sprintf("valid=%v err=%v panic=%v file=%s split after node %d", want, err, pan, f, k)))
			}
		}
	}
	fmt.Printf("BOUNDED-SAMPLE %s\n", strconv.Quote(fmt.Sprintf("valid inputs %d, invalid inputs %d (by the oracle)", nValid, nInvalid)))
	fmt.Printf("BOUNDED-CASES %d exhaustive=false distinct=%d\n", cases, len(distinct))
}
