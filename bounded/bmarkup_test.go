package markup

// Bounded stand-in B-markup (injected with go test -overlay; nothing is written to /repo).
//
// Property C13, functional part (outside what the contracts express: the contracts prove totality, ranges inside
// the text and purity). Lines are assembled from a grammar of events - text chunks (ASCII, multi-byte, inner
// whitespace), escaped brackets, open / close / close-all / self-closing markers with 0-3 typed properties,
// nested, overlapping and repeated markers, a "Name: " prefix, select / plural / ordinal / nomarkup replacement
// markers - and the expected plain text and attributes are computed while assembling (no second parser).

import (
	"fmt"
	"math/rand"
	"os"
	"sort"
	"strconv"
	"strings"
	"testing"
)

type bmAttr struct {
	name     string
	pos, len int
	props    string // canonical rendering of the typed properties
	text     string // the enclosed text
}

type bmOpen struct {
	name  string
	pos   int
	props string
}

func bmProps(r *rand.Rand) (src string, canon string, shorthand string) {
	n := r.Intn(4)
	var keys []string
	vals := map[string]string{}
	for i := 0; i < n; i++ {
		k := "p" + strconv.Itoa(i)
		var s, c string
		switch r.Intn(6) {
		case 0:
			v := r.Intn(1000)
			s, c = strconv.Itoa(v), fmt.Sprintf("int:%d", v)
		case 1:
			a, b := r.Intn(50), r.Intn(100)
			s = fmt.Sprintf("%d.%02d", a, b)
			f, _ := strconv.ParseFloat(s, 64)
			c = fmt.Sprintf("float:%v", f)
			if r.Intn(5) == 0 { // the parser skips blanks after the decimal point: they are not digits of the fraction
				s = fmt.Sprintf("%d.%s%02d", a, []string{" ", "  ", "\t"}[r.Intn(3)], b)
			}
		case 2:
			b := r.Intn(2) == 0
			s, c = strconv.FormatBool(b), fmt.Sprintf("bool:%v", b)
		case 3:
			w := []string{"red", "big", "slow", "Zed"}[r.Intn(4)]
			s, c = w, "string:"+w
		case 4:
			w := []string{"two words", "x=1", "café", ""}[r.Intn(4)]
			s, c = strconv.Quote(w), "string:"+w
			if w == "café" {
				s = "\"café\""
			}
		default:
			w := []string{"True", "FALSE"}[r.Intn(2)]
			s, c = w, fmt.Sprintf("bool:%v", strings.ToLower(w) == "true")
		}
		keys = append(keys, k)
		vals[k] = c
		switch r.Intn(12) { // blanks around the '=' of a property are skipped too
		case 0:
			src += " " + k + " = " + s
		case 1:
			src += "  " + k + "= " + s
		default:
			src += " " + k + "=" + s
		}
	}
	sort.Strings(keys)
	for _, k := range keys {
		canon += k + "=" + vals[k] + ";"
	}
	return
}

func bmCanonProps(m map[string]Value) string {
	var keys []string
	for k := range m {
		keys = append(keys, k)
	}
	sort.Strings(keys)
	out := ""
	for _, k := range keys {
		v := m[k]
		switch v.ValueType {
		case ValueTypeInteger:
			out += fmt.Sprintf("%s=int:%d;", k, v.IntegerValue)
		case ValueTypeFloat:
			out += fmt.Sprintf("%s=float:%v;", k, v.FloatValue)
		case ValueTypeBool:
			out += fmt.Sprintf("%s=bool:%v;", k, v.BoolValue)
		default:
			out += fmt.Sprintf("%s=string:%s;", k, v.StringValue)
		}
	}
	return out
}

var bmChunks = []string{"hello", "a b", "x", "café", "日本語", "\U0001F600 ok", "wor ld", "1 + 2", "end.", "tab\there", "q?", "-", "back\\slash", "two\\\\s", "\\n"}
var bmNames = []string{"a", "b", "wave", "big", "c1"}

func ordinalCaseOf(n int) string {
	switch {
	case n%10 == 1 && n%100 != 11:
		return "one"
	case n%10 == 2 && n%100 != 12:
		return "two"
	case n%10 == 3 && n%100 != 13:
		return "few"
	}
	return "other"
}

// assemble builds one line and its expected parse.
func assemble(r *rand.Rand) (line string, text string, attrs []bmAttr, hasPrefix string) {
	var src strings.Builder
	var out []rune
	var open []bmOpen
	if r.Intn(5) == 0 {
		name := []string{"Bob", "Zoé", "Mr X"}[r.Intn(3)]
		hasPrefix = name + ": "
		src.WriteString(hasPrefix + "x") // the name's whitespace ends here: what follows is not part of the prefix
		out = append(out, []rune(hasPrefix+"x")...)
	}
	lastWasSpace := func() bool { return len(out) > 0 && (out[len(out)-1] == ' ' || out[len(out)-1] == '\t') }
	closeOne := func(i int) {
		o := open[i]
		attrs = append(attrs, bmAttr{o.name, o.pos, len(out) - o.pos, o.props, string(out[o.pos:])})
		open = append(open[:i], open[i+1:]...)
	}
	n := 2 + r.Intn(9)
	for e := 0; e < n; e++ {
		switch k := r.Intn(20); {
		case k < 7:
			c := bmChunks[r.Intn(len(bmChunks))]
			src.WriteString(c)
			out = append(out, []rune(c)...)
		case k < 8:
			src.WriteString(" ")
			out = append(out, ' ')
		case k < 10:
			if r.Intn(2) == 0 {
				src.WriteString("\\[")
				out = append(out, '[')
			} else {
				src.WriteString("\\]")
				out = append(out, ']')
			}
		case k < 14 && len(open) < 4:
			name := bmNames[r.Intn(len(bmNames))]
			ps, pc, _ := bmProps(r)
			if pc == "" && r.Intn(4) == 0 { // shorthand [name=value]
				v := r.Intn(90)
				ps, pc = "="+strconv.Itoa(v), fmt.Sprintf("%s=int:%d;", name, v)
			}
			src.WriteString("[" + name + ps + "]")
			open = append(open, bmOpen{name, len(out), pc})
		case k < 16 && len(open) > 0:
			i := r.Intn(len(open)) // any open marker: nesting and overlap
			// the parser closes the first open marker of that name
			for j := range open {
				if open[j].name == open[i].name {
					i = j
					break
				}
			}
			src.WriteString("[/" + open[i].name + "]")
			closeOne(i)
		case k < 17 && len(open) > 0:
			src.WriteString("[/]")
			for len(open) > 0 {
				closeOne(0)
			}
		case k < 18:
			// self-closing marker, placed where no whitespace follows (both readings of whitespace trimming agree)
			name := bmNames[r.Intn(len(bmNames))]
			ps, pc, _ := bmProps(r)
			src.WriteString("[" + name + ps + " /]" + "z")
			attrs = append(attrs, bmAttr{name, len(out), 0, pc, ""})
			out = append(out, 'z')
		default:
			// replacement markers: not preceded by whitespace handling issues (they never trim)
			var m, rep string
			switch r.Intn(4) {
			case 0:
				v := []string{"m", "f", "nb"}[r.Intn(3)]
				m = fmt.Sprintf("[select value=%s m=\"he\" f=\"she\" nb=\"théy %%\" /]", v)
				rep = map[string]string{"m": "he", "f": "she", "nb": "théy nb"}[v]
			case 1:
				v := r.Intn(4)
				m = fmt.Sprintf("[plural value=%d one=\"%% œuf\" other=\"%% œufs\" /]", v)
				rep = map[bool]string{true: "1 œuf", false: fmt.Sprintf("%d œufs", v)}[v == 1]
			case 2:
				v := []int{1, 2, 3, 4, 11, 12, 13, 21, 22, 23, 101, 111, 112}[r.Intn(13)]
				m = fmt.Sprintf("[ordinal value=%d one=\"%%st\" two=\"%%nd\" few=\"%%rd\" other=\"%%th\" /]", v)
				rep = strconv.Itoa(v) + map[string]string{"one": "st", "two": "nd", "few": "rd", "other": "th"}[ordinalCaseOf(v)]
			default:
				raw := []string{"[b]raw[/b]", "a [x/] b", "é[/other]"}[r.Intn(3)]
				cl := []string{"[/nomarkup]", "[/]"}[r.Intn(2)]
				if len(open) > 0 {
					cl = "[/nomarkup]" // a close-all would close the open markers too
				}
				m = "[nomarkup]" + raw + cl
				rep = raw
			}
			src.WriteString(m)
			out = append(out, []rune(rep)...)
		}
		_ = lastWasSpace
	}
	if len(open) > 0 {
		src.WriteString("[/]")
		for len(open) > 0 {
			closeOne(0)
		}
	}
	// the returned text is trimmed and the ranges follow it
	full := string(out)
	trimmed := strings.TrimSpace(full)
	lead := len([]rune(full)) - len([]rune(strings.TrimLeft(full, " \t")))
	tl := len([]rune(trimmed))
	clamp := func(x int) int {
		if x < 0 {
			return 0
		}
		if x > tl {
			return tl
		}
		return x
	}
	for i := range attrs {
		s, e := clamp(attrs[i].pos-lead), clamp(attrs[i].pos+attrs[i].len-lead)
		attrs[i].pos, attrs[i].len = s, e-s
		attrs[i].text = string([]rune(trimmed)[s:e])
	}
	return src.String(), trimmed, attrs, hasPrefix
}

func TestBoundedMarkup(t *testing.T) {
	seed, _ := strconv.Atoi(os.Getenv("VERIF_SEED"))
	n := 60000
	if os.Getenv("VERIF_TIER") == "thorough" {
		n = 1500000
	}
	r := rand.New(rand.NewSource(int64(seed)*31337 + 11))
	p := &LineParser{}
	viol, samples := 0, 0
	distinct := map[string]bool{}
	report := func(kind, what string) {
		if viol < 6 {
			viol++
			fmt.Printf("BOUNDED-VIOLATION %s %s\n", kind, strconv.Quote(what))
		}
	}
	for c := 0; c < n; c++ {
		line, text, attrs, prefix := assemble(r)
		if strings.Contains(strings.TrimPrefix(line, prefix), ":") {
			continue // a colon elsewhere would define a character name
		}
		if distinct[line] {
			continue
		}
		distinct[line] = true
		if c%7 == 3 {
			// history: a line that fails to parse on the same parser value must leave no trace (C14)
			bad := []string{"Oops [wave", "stray [/nothing] closing marker", "[a p0=]x[/a]", "half \\[ [b"}[c%4]
			func() {
				defer func() {
					if e := recover(); e != nil {
						report("panic", fmt.Sprintf("line %q: %v", bad, e))
					}
				}()
				p.ParseMarkup(bad)
			}()
		}
		func() {
			defer func() {
				if e := recover(); e != nil {
					report("panic", fmt.Sprintf("line %q: %v", line, e))
				}
			}()
			res, err := p.ParseMarkup(line)
			if err != nil {
				report("error", fmt.Sprintf("line %q: %v", line, err))
				return
			}
			if res.Text != text {
				report("text", fmt.Sprintf("line %q: text %q, wanted %q", line, res.Text, text))
				return
			}
			var want, got []string
			for _, a := range attrs {
				want = append(want, fmt.Sprintf("%s@%d+%d{%s}=%q", a.name, a.pos, a.len, a.props, a.text))
			}
			sawCharacter := false
			for _, a := range res.Attributes {
				switch a.Name {
				case "select", "plural", "ordinal", "nomarkup":
					continue // the replacement marker's own attribute is not part of the property
				case "character":
					sawCharacter = true
					pl := len([]rune(prefix))
					if prefix == "" || a.Position != 0 || a.Length != pl || res.TextForAttribute(a) != prefix {
						report("character", fmt.Sprintf("line %q: character attribute %+v, prefix %q", line, a, prefix))
					}
					if nv, ok := a.Properties["name"]; prefix != "" && (!ok || nv.StringValue != strings.TrimSuffix(prefix, ": ")) {
						report("character", fmt.Sprintf("line %q: character name %+v, prefix %q", line, a.Properties, prefix))
					}
					continue
				}
				got = append(got, fmt.Sprintf("%s@%d+%d{%s}=%q", a.Name, a.Position, a.Length, bmCanonProps(a.Properties), res.TextForAttribute(a)))
			}
			if prefix != "" && !sawCharacter {
				report("character", fmt.Sprintf("line %q: no character attribute for prefix %q", line, prefix))
			}
			sort.Strings(want)
			sort.Strings(got)
			if strings.Join(want, "|") != strings.Join(got, "|") {
				report("attributes", fmt.Sprintf("line %q text %q: attributes %v, wanted %v", line, res.Text, got, want))
				return
			}
			if samples < 4 && len(attrs) >= 3 {
				samples++
				fmt.Printf("BOUNDED-SAMPLE %s\n", strconv.Quote(fmt.Sprintf("%s => %q %v", line, text, want)))
			}
		}()
	}
	fmt.Printf("BOUNDED-CASES %d exhaustive=false distinct=%d\n", n, len(distinct))
}
