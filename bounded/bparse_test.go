package tree

// Bounded stand-in B-parse (injected with go test -overlay; nothing is written to /repo).
//
// Stands in for Cparse, the assumed contract of FromReader (ANTLR lexer + parser + listener: outside the
// verifier's subset), for property C08: a generated program is rendered in a canonical layout and in layout
// variants that must not change its meaning; the parsed dialogues must be deeply equal (the traces are then
// equal because Next is proved to be a function of the dialogue and the runner state, C01).
//
// Each variant switches on exactly one layout feature, so that a mismatch is attributable. Mismatches of a
// feature that is a recorded finding print BOUNDED-FINDING <id>; every other mismatch, parse error or panic
// prints BOUNDED-VIOLATION.

import (
	"fmt"
	"math/rand"
	"os"
	"reflect"
	"strconv"
	"strings"
	"testing"
)

type gStmt struct {
	kind    string // line option-group if set setop declare jump jumpexpr stop command call
	text    string
	want    string   // line: the text the tree must hold (escapes resolved); "" = text
	tags    []string // line: tags in order
	args    []*gExpr // call: arguments
	op      string   // setop: += -= *= /= %=
	opts    []gOpt
	clauses []gClause
	expr    *gExpr
	name    string
}
type gOpt struct {
	text string
	cond *gExpr
	body []gStmt
}
type gClause struct {
	cond *gExpr // nil: else
	body []gStmt
}
type gExpr struct {
	op   string // "" leaf, "call" function call (leaf = name)
	leaf string
	l, r *gExpr
	args []*gExpr
}
type gNode struct {
	title string
	body  []gStmt
}

type layout struct {
	unit        string // indentation unit
	crlf        bool
	spell       int    // operator spelling family 0/1
	parens      bool   // redundant parentheses around every binary expression
	cmdSpaces   bool   // extra spaces inside << >>
	feature     string // the single structural feature of this variant
	r           *rand.Rand
	inserted    int
	splitAt     map[int]bool // node indices after which a new reader starts
	trailingCmt bool
	minimal     bool // expressions carry only the parentheses that precedence and associativity require
}

var opSpell = map[string][2]string{
	"==": {"==", "eq"}, "!=": {"!=", "neq"}, "<=": {"<=", "lte"}, ">=": {">=", "gte"}, "<": {"<", "lt"}, ">": {">", "gt"},
	"&&": {"&&", "and"}, "||": {"||", "or"}, "^": {"^", "xor"}, "+": {"+", "+"}, "-": {"-", "-"}, "*": {"*", "*"}, "/": {"/", "/"}, "%": {"%", "%"},
}

func (e *gExpr) render(l *layout, top bool) string {
	if l.minimal && top {
		return e.renderMinimal(l)
	}
	if e.op == "" {
		return e.leaf
	}
	if e.op == "call" {
		var as []string
		for _, a := range e.args {
			as = append(as, a.render(l, true))
		}
		return e.leaf + "(" + strings.Join(as, ", ") + ")"
	}
	if e.op == "!" {
		s := [2]string{"!", "not "}[l.spell]
		return s + e.l.render(l, false)
	}
	s := e.l.render(l, false) + " " + opSpell[e.op][l.spell] + " " + e.r.render(l, false)
	if !top || l.parens {
		return "(" + s + ")"
	}
	return s
}

func genExpr(r *rand.Rand, depth int, boolean bool) *gExpr {
	if depth == 0 || r.Intn(3) == 0 {
		if boolean {
			return &gExpr{leaf: []string{"true", "false", "$b"}[r.Intn(3)]}
		}
		if r.Intn(6) == 0 {
			return &gExpr{op: "call", leaf: []string{"dice", "fn_2", "round"}[r.Intn(3)], args: []*gExpr{{leaf: "6"}, {leaf: "$n"}}[:1+r.Intn(2)]}
		}
		return &gExpr{leaf: []string{"1", "2", "$n", "3.5", "10"}[r.Intn(5)]}
	}
	if boolean {
		switch r.Intn(4) {
		case 0:
			return &gExpr{op: []string{"&&", "||", "^"}[r.Intn(3)], l: genExpr(r, depth-1, true), r: genExpr(r, depth-1, true)}
		case 1:
			return &gExpr{op: "!", l: genExpr(r, depth-1, true)}
		default:
			return &gExpr{op: []string{"==", "!=", "<=", ">=", "<", ">"}[r.Intn(6)], l: genExpr(r, depth-1, false), r: genExpr(r, depth-1, false)}
		}
	}
	return &gExpr{op: []string{"+", "-", "*", "/", "%"}[r.Intn(5)], l: genExpr(r, depth-1, false), r: genExpr(r, depth-1, false)}
}

var lineCount int

// clauseLen: a clause of an if-chain has one or two statements, and now and then none at all (an empty clause is still a clause)
func clauseLen(r *rand.Rand) int {
	if r.Intn(5) == 0 {
		return 0
	}
	return 1 + r.Intn(2)
}

func genBody(r *rand.Rand, depth, n int, titles []string) []gStmt {
	var out []gStmt
	for i := 0; i < n; i++ {
		lineCount++
		switch k := r.Intn(10); {
		case k < 3:
			if r.Intn(4) == 0 {
				out = append(out, gStmt{kind: "line", text: fmt.Sprintf("Pair %d {$n} {$n}{$n} end", lineCount), want: fmt.Sprintf("Pair %d {} {}{} end", lineCount)})
			} else {
				out = append(out, gStmt{kind: "line", text: fmt.Sprintf("Line %d says {$n} here", lineCount)})
			}
		case k < 5 && depth > 0:
			g := gStmt{kind: "option-group"}
			for j := 0; j < 1+r.Intn(3); j++ {
				o := gOpt{text: fmt.Sprintf("Option %d-%d", lineCount, j)}
				if r.Intn(4) == 0 {
					o.cond = genExpr(r, 1, true)
				}
				o.body = genBody(r, depth-1, r.Intn(3), titles)
				g.opts = append(g.opts, o)
			}
			out = append(out, g)
			// a group is closed by a following non-option statement (two adjacent groups would be one group)
			lineCount++
			out = append(out, gStmt{kind: "line", text: fmt.Sprintf("After group %d", lineCount)})
		case k < 6 && depth > 0:
			g := gStmt{kind: "if"}
			g.clauses = append(g.clauses, gClause{cond: genExpr(r, 2, true), body: genBody(r, depth-1, clauseLen(r), titles)})
			if r.Intn(2) == 0 {
				g.clauses = append(g.clauses, gClause{cond: genExpr(r, 1, true), body: genBody(r, depth-1, clauseLen(r), titles)})
			}
			if r.Intn(2) == 0 {
				g.clauses = append(g.clauses, gClause{body: genBody(r, depth-1, clauseLen(r), titles)})
			}
			out = append(out, g)
		case k < 7:
			out = append(out, gStmt{kind: "set", name: "$n", expr: genExpr(r, 2, false)})
		case k < 8:
			switch r.Intn(7) {
			case 4, 5, 6:
				// a command assembled from pools: one-letter, keyword-prefixed and multi-byte names; words of every kind in every position
				names := []string{"p", "x", "go", "q1", "iffy", "setter", "stopwatch", "jumper", "wait_for", "d\u00e9j\u00e0", "Z"}
				words := []string{"1", "-2.5", "0", "true", "false", "w", "word", "truely", "12ab", "\u00e9t\u00e9", "a.b", "-x", "{$n}", "{$b}", "{\"lit\"}", "{$n}", "x9"}
				parts := []string{names[r.Intn(len(names))]}
				for n := r.Intn(5); n > 0; n-- {
					parts = append(parts, words[r.Intn(len(words))])
				}
				sep := " "
				if r.Intn(6) == 0 {
					sep = "  "
				}
				out = append(out, gStmt{kind: "command", text: strings.Join(parts, sep)})
			case 0:
				out = append(out, gStmt{kind: "command", text: fmt.Sprintf("act %d fast {$n}", lineCount)})
			case 1:
				out = append(out, gStmt{kind: "command", text: fmt.Sprintf("give %d coins {$n} now {$b} please", lineCount)})
			case 2:
				out = append(out, gStmt{kind: "command", text: "say {\"5\"} {\"true\"} {\"word\"} done"})
			default:
				out = append(out, gStmt{kind: "command", text: fmt.Sprintf("emit {$n} {$b} x%d", lineCount)})
			}
		case k < 9:
			if r.Intn(3) == 0 {
				out = append(out, gStmt{kind: "declare", name: fmt.Sprintf("$d%d", lineCount), expr: genExpr(r, 0, r.Intn(2) == 0)}) // the grammar allows a single value here
			} else {
				out = append(out, gStmt{kind: "set", name: "$b", expr: genExpr(r, 2, true)})
			}
		default:
			switch r.Intn(9) {
			case 0:
				out = append(out, gStmt{kind: "jump", name: titles[r.Intn(len(titles))]})
			case 1:
				out = append(out, gStmt{kind: "jumpexpr", name: "$node"})
			case 2:
				out = append(out, gStmt{kind: "stop"})
			case 3:
				out = append(out, gStmt{kind: "call", name: []string{"fn_1", "log"}[r.Intn(2)], args: []*gExpr{genExpr(r, 1, false), {leaf: "\"two words\""}}[:1+r.Intn(2)]})
			case 4:
				out = append(out, gStmt{kind: "setop", name: "$n", op: []string{"+=", "-=", "*=", "/=", "%="}[r.Intn(5)], expr: genExpr(r, 1, false)})
			case 5:
				out = append(out, gStmt{kind: "set", name: "$s", expr: &gExpr{op: "+", l: &gExpr{leaf: "\"a b\""}, r: &gExpr{op: "call", leaf: "string", args: []*gExpr{{leaf: "$n"}}}}})
			case 6:
				out = append(out, gStmt{kind: "command", text: []string{"iffy 1 true", "settings on -2.5", "jumpy Node0", "stopper", "callme maybe", "declared x 3", "setup false"}[r.Intn(7)]})
			case 7:
				// escapes resolved by the front end; \[ and \] are left to the markup parser
				k := lineCount
				out = append(out, gStmt{kind: "line", text: fmt.Sprintf("\\#x%d \\{0\\} \\<\\<c\\>\\> a \\/\\/ b back\\\\slash \\[m\\] it's 50%% #t%d #u%d", k, k, k),
					want: fmt.Sprintf("#x%d {0} <<c>> a // b back\\slash \\[m\\] it's 50%%", k), tags: []string{fmt.Sprintf("t%d", k), fmt.Sprintf("u%d", k)}})
			default:
				out = append(out, gStmt{kind: "line", text: fmt.Sprintf("Plain %d #tag%d", lineCount, lineCount)})
			}
		}
	}
	return out
}

func genProgram(r *rand.Rand) []gNode {
	n := 1 + r.Intn(3)
	var titles []string
	for i := 0; i < n; i++ {
		titles = append(titles, fmt.Sprintf("Node%d", i))
	}
	var nodes []gNode
	for i := 0; i < n; i++ {
		body := []gStmt{}
		if i == 0 {
			body = append(body, gStmt{kind: "declare", name: "$n", expr: &gExpr{leaf: "1"}}, gStmt{kind: "declare", name: "$b", expr: &gExpr{leaf: "true"}})
		}
		body = append(body, genBody(r, 3, 2+r.Intn(4), titles)...)
		nodes = append(nodes, gNode{titles[i], body})
	}
	return nodes
}

// ---- rendering ----------------------------------------------------------------------------------------------

type renderer struct {
	l   *layout
	out []string // lines without terminator
}

func (w *renderer) emit(depth int, s string) {
	if w.l.trailingCmt && w.l.r.Intn(3) == 0 && !strings.Contains(s, "#") {
		s += " // trailing comment"
		w.l.inserted++
	}
	w.out = append(w.out, strings.Repeat(w.l.unit, depth)+s)
}

// between: called between two statements of a block at the given depth (also before the first and after the last
// statement of a nested block when first / last are set)
func (w *renderer) between(depth int, nested bool) {
	l := w.l
	ins := func(s string) { w.out = append(w.out, s); l.inserted++ }
	switch l.feature {
	case "blank-top":
		if !nested && l.r.Intn(2) == 0 {
			ins("")
		}
	case "blank-nested":
		if nested && l.r.Intn(2) == 0 {
			ins("")
		}
	case "wsline-same-width":
		if l.r.Intn(2) == 0 {
			ins(strings.Repeat(l.unit, depth))
		}
	case "wsline-other-width-nested":
		if nested && l.r.Intn(2) == 0 {
			ins(strings.Repeat(l.unit, depth-1) + "")
		}
	case "comment-same-indent":
		if l.r.Intn(2) == 0 {
			ins(strings.Repeat(l.unit, depth) + "// a comment line")
		}
	case "comment-lower-indent-nested":
		if nested && l.r.Intn(2) == 0 {
			ins("// a comment line at column 0")
		}
	case "comment-top":
		if !nested && l.r.Intn(2) == 0 {
			ins("// a comment line")
		}
	}
}

func cmd(l *layout, s string) string {
	if l.cmdSpaces {
		return "<<  " + s + "  >>"
	}
	return "<<" + s + ">>"
}

func (w *renderer) block(depth int, body []gStmt) {
	l := w.l
	for i, s := range body {
		if i > 0 {
			w.between(depth, depth > 0)
		}
		switch s.kind {
		case "line":
			w.emit(depth, s.text)
		case "option-group":
			for _, o := range s.opts {
				t := "-> " + o.text
				if o.cond != nil {
					t += " " + cmd(l, "if "+o.cond.render(l, true))
				}
				w.emit(depth, t)
				w.block(depth+1, o.body)
			}
		case "if":
			for ci, c := range s.clauses {
				switch {
				case ci == 0:
					w.emit(depth, cmd(l, "if "+c.cond.render(l, true)))
				case c.cond != nil:
					w.emit(depth, cmd(l, "elseif "+c.cond.render(l, true)))
				default:
					w.emit(depth, cmd(l, "else"))
				}
				w.block(depth+1, c.body)
			}
			w.emit(depth, cmd(l, "endif"))
		case "set":
			to := [2]string{"=", "to"}[l.spell]
			w.emit(depth, cmd(l, "set "+s.name+" "+to+" "+s.expr.render(l, true)))
		case "declare":
			w.emit(depth, cmd(l, "declare "+s.name+" = "+s.expr.render(l, true)))
		case "jump":
			w.emit(depth, cmd(l, "jump "+s.name))
		case "jumpexpr":
			w.emit(depth, cmd(l, "jump {"+s.name+"}"))
		case "stop":
			w.emit(depth, cmd(l, "stop"))
		case "call":
			var as []string
			for _, a := range s.args {
				as = append(as, a.render(l, true))
			}
			w.emit(depth, cmd(l, "call "+s.name+"("+strings.Join(as, ", ")+")"))
		case "setop":
			w.emit(depth, cmd(l, "set "+s.name+" "+s.op+" "+s.expr.render(l, true)))
		case "command":
			w.emit(depth, cmd(l, s.text))
		}
	}
}

// render returns the reader contents (one string per reader).
func render(nodes []gNode, l *layout) []string {
	var readers []string
	w := &renderer{l: l}
	flush := func() {
		nl := "\n"
		if l.crlf {
			nl = "\r\n"
		}
		readers = append(readers, strings.Join(w.out, nl)+nl)
		w.out = nil
	}
	for i, n := range nodes {
		if l.feature == "wsline-between-nodes" && i > 0 {
			w.out = append(w.out, "    ")
			l.inserted++
		}
		if l.feature == "blank-between-nodes" && i > 0 {
			w.out = append(w.out, "")
			l.inserted++
		}
		w.out = append(w.out, "title: "+n.title, "---")
		w.block(0, n.body)
		w.out = append(w.out, "===")
		if l.splitAt[i] && i < len(nodes)-1 {
			flush()
		}
	}
	flush()
	return readers
}

func parseAll(readers []string) (d *Dialogue, err error, pan any) {
	defer func() {
		if r := recover(); r != nil {
			pan = r
		}
	}()
	var rs []interface{ Read([]byte) (int, error) }
	_ = rs
	var ios []*strings.Reader
	for _, s := range readers {
		ios = append(ios, strings.NewReader(s))
	}
	switch len(ios) {
	case 1:
		d, err = FromReaders(ios[0])
	case 2:
		d, err = FromReaders(ios[0], ios[1])
	default:
		d, err = FromReaders(ios[0], ios[1], ios[2])
	}
	return
}

// normalise removes what cannot reach a trace: the whitespace a trailing comment leaves at the end of a line's
// last text element (the markup parser trims the rendered line: C15 / D16).
func normalise(d *Dialogue) {
	var stmts func(ss []*Statement)
	line := func(l *LineStatement) {
		if l == nil || l.Text == nil || len(l.Text.Elements) == 0 {
			return
		}
		last := l.Text.Elements[len(l.Text.Elements)-1]
		if last.Expression == nil {
			last.Text = strings.TrimRight(last.Text, " \t")
		}
	}
	stmts = func(ss []*Statement) {
		for _, s := range ss {
			line(s.LineStatement)
			if s.ShortcutOptionStatement != nil {
				for _, o := range s.ShortcutOptionStatement.Options {
					line(o.LineStatement)
					stmts(o.Statements)
				}
			}
			if s.IfStatement != nil {
				for _, c := range s.IfStatement.Clauses {
					stmts(c.Statements)
				}
			}
		}
	}
	if d == nil {
		return
	}
	for i := range d.Nodes {
		stmts(d.Nodes[i].Statements)
	}
}

// ---- structural oracle: the parsed dialogue is the generated program -------------------------------------------
//
// The canonical rendering (fully parenthesised expressions) and a rendering with only the parentheses that
// precedence and associativity require are parsed and compared with the generator's own syntax tree: statement
// kinds and order, option texts / conditions / bodies, if chains, set / declare targets and operators, jump
// targets, command words, inline expressions, tags, and expression trees (operator constants, operands).

var binOpConst = map[string]int{"*": MultiplicationBinaryOperator, "/": DivisionBinaryOperator, "%": ModuloBinaryOperator, "+": AdditionBinaryOperator,
	"-": SubtractionBinaryOperator, "<=": LessThanEqualsBinaryOperator, ">=": GreaterThanEqualsBinaryOperator, "<": LessBinaryOperator, ">": GreaterBinaryOperator,
	"==": EqualsBinaryOperator, "!=": NotEqualsBinaryOperator, "&&": AndBinaryOperator, "||": OrBinaryOperator, "^": XorBinaryOperator}

// precedence levels of the grammar (a higher level binds tighter); and / or / xor share one level
var opLevel = map[string]int{"*": 5, "/": 5, "%": 5, "+": 4, "-": 4, "<=": 3, ">=": 3, "<": 3, ">": 3, "==": 2, "!=": 2, "&&": 1, "||": 1, "^": 1}

func (e *gExpr) renderMinimal(l *layout) string {
	if e.op == "" {
		return e.leaf
	}
	if e.op == "call" {
		var as []string
		for _, a := range e.args {
			as = append(as, a.renderMinimal(l))
		}
		return e.leaf + "(" + strings.Join(as, ", ") + ")"
	}
	if e.op == "!" {
		in := e.l.renderMinimal(l)
		if e.l.op != "" && e.l.op != "!" && e.l.op != "call" {
			in = "(" + in + ")"
		}
		return [2]string{"!", "not "}[l.spell] + in
	}
	lv := opLevel[e.op]
	ls, rs := e.l.renderMinimal(l), e.r.renderMinimal(l)
	if e.l.op != "" && e.l.op != "!" && e.l.op != "call" && opLevel[e.l.op] < lv {
		ls = "(" + ls + ")"
	}
	if e.r.op != "" && e.r.op != "!" && e.r.op != "call" && opLevel[e.r.op] <= lv { // left-associative: an equal level on the right needs parentheses
		rs = "(" + rs + ")"
	}
	return ls + " " + opSpell[e.op][l.spell] + " " + rs
}

func matchExpr(g *gExpr, e *Expression) string {
	if e == nil {
		return "missing expression for " + g.render(&layout{}, true)
	}
	switch {
	case g.op == "call":
		if e.FunctionCall == nil || e.FunctionCall.FunctionID != g.leaf || len(e.FunctionCall.Arguments) != len(g.args) || e.Operator != nil || e.Value != nil {
			return "function call " + g.leaf + " not found"
		}
		for i, a := range g.args {
			if m := matchExpr(a, e.FunctionCall.Arguments[i]); m != "" {
				return "argument of " + g.leaf + ": " + m
			}
		}
		return ""
	case g.op == "":
		switch {
		case strings.HasPrefix(g.leaf, "\""):
			if e.Value == nil || e.Value.String == nil || *e.Value.String != strings.Trim(g.leaf, "\"") {
				return "string literal " + g.leaf + " not found"
			}
		case g.leaf == "true" || g.leaf == "false":
			if e.Value == nil || e.Value.Boolean == nil || *e.Value.Boolean != (g.leaf == "true") {
				return "boolean literal " + g.leaf + " not found"
			}
		case strings.HasPrefix(g.leaf, "$"):
			if e.VariableID == nil || *e.VariableID != g.leaf[1:] {
				return "variable " + g.leaf + " not found"
			}
		default:
			f, _ := strconv.ParseFloat(g.leaf, 64)
			if e.Value == nil || e.Value.Number == nil || *e.Value.Number != f {
				return "number literal " + g.leaf + " not found"
			}
		}
		if e.LeftOperand != nil || e.RightOperand != nil || e.NotExpression != nil || e.NegativeExpression != nil || e.Operator != nil || e.FunctionCall != nil {
			return "leaf " + g.leaf + " carries an operator"
		}
	case g.op == "!":
		if e.NotExpression == nil || e.Operator != nil || e.Value != nil {
			return "negation not found for " + g.render(&layout{}, true)
		}
		return matchExpr(g.l, e.NotExpression)
	default:
		if e.Operator == nil || *e.Operator != binOpConst[g.op] || e.NotExpression != nil || e.Value != nil {
			return "operator " + g.op + " not found at " + g.render(&layout{}, true)
		}
		if m := matchExpr(g.l, e.LeftOperand); m != "" {
			return m
		}
		return matchExpr(g.r, e.RightOperand)
	}
	return ""
}

func lineText(l *LineStatement) (string, int) {
	if l == nil || l.Text == nil {
		return "", 0
	}
	t, n := "", 0
	for _, el := range l.Text.Elements {
		if el.Expression != nil {
			t += "{}"
			n++
		} else {
			t += el.Text
		}
	}
	return strings.TrimSpace(t), n
}

func matchStmts(gs []gStmt, ps []*Statement) string {
	i := 0
	for _, g := range gs {
		if i >= len(ps) {
			return fmt.Sprintf("statement %d (%s) is missing", i, g.kind)
		}
		p := ps[i]
		i++
		switch g.kind {
		case "line":
			want := g.text
			var tags []string
			if g.want != "" {
				want, tags = g.want, g.tags
			} else if k := strings.Index(want, " #"); k >= 0 {
				tags = []string{want[k+2:]}
				want = want[:k]
			}
			want = strings.ReplaceAll(want, "{$n}", "{}")
			if g.want != "" && strings.Contains(g.text, "{$n}") && !strings.Contains(g.want, "{}") {
				want = g.want
			}
			got, _ := lineText(p.LineStatement)
			if p.LineStatement == nil || got != want {
				return fmt.Sprintf("line %q parsed as %q", want, got)
			}
			if len(tags) != len(p.LineStatement.Tags) || strings.Join(tags, ",") != strings.Join(p.LineStatement.Tags, ",") {
				return fmt.Sprintf("line %q has tags %v, wanted %v", want, p.LineStatement.Tags, tags)
			}
			if strings.Contains(g.text, "{$n}") {
				ok := false
				for _, el := range p.LineStatement.Text.Elements {
					ok = ok || (el.Expression != nil && el.Expression.VariableID != nil && *el.Expression.VariableID == "n")
				}
				if !ok {
					return fmt.Sprintf("line %q lost its inline expression", g.text)
				}
			}
		case "option-group":
			so := p.ShortcutOptionStatement
			if so == nil || len(so.Options) != len(g.opts) {
				n := -1
				if so != nil {
					n = len(so.Options)
				}
				return fmt.Sprintf("option group of %d options parsed with %d", len(g.opts), n)
			}
			for k, o := range g.opts {
				got, _ := lineText(so.Options[k].LineStatement)
				if got != o.text {
					return fmt.Sprintf("option %q parsed as %q", o.text, got)
				}
				if (o.cond != nil) != (so.Options[k].LineStatement.Condition != nil) {
					return fmt.Sprintf("option %q: condition presence differs", o.text)
				}
				if o.cond != nil {
					if m := matchExpr(o.cond, so.Options[k].LineStatement.Condition); m != "" {
						return "option " + o.text + ": " + m
					}
				}
				if m := matchStmts(o.body, so.Options[k].Statements); m != "" {
					return "in option " + o.text + ": " + m
				}
			}
		case "if":
			is := p.IfStatement
			if is == nil || len(is.Clauses) != len(g.clauses) {
				return "if statement with another number of clauses"
			}
			for k, c := range g.clauses {
				cond := c.cond
				if cond == nil {
					cond = &gExpr{leaf: "true"} // an else clause is stored with the condition true
				}
				if m := matchExpr(cond, is.Clauses[k].Condition); m != "" {
					return "if condition: " + m
				}
				if m := matchStmts(c.body, is.Clauses[k].Statements); m != "" {
					return "in if clause: " + m
				}
			}
		case "set":
			ss := p.SetStatement
			if ss == nil || ss.VariableID != g.name[1:] || ss.InPlaceOperator != AssignmentInPlaceOperator {
				return "set " + g.name + " not found"
			}
			if m := matchExpr(g.expr, ss.Expression); m != "" {
				return "set " + g.name + ": " + m
			}
		case "declare":
			ds := p.DeclareStatement
			if ds == nil || ds.VariableID != g.name[1:] {
				return "declare " + g.name + " not found"
			}
			if m := matchExpr(g.expr, ds.Value); m != "" {
				return "declare " + g.name + ": " + m
			}
		case "jump":
			js := p.JumpStatement
			if js == nil || js.Expression == nil || js.Expression.Value == nil || js.Expression.Value.String == nil || *js.Expression.Value.String != g.name {
				return "jump " + g.name + " not found"
			}
		case "jumpexpr":
			js := p.JumpStatement
			if js == nil || js.Expression == nil || js.Expression.VariableID == nil || *js.Expression.VariableID != g.name[1:] {
				return "jump by expression {" + g.name + "} not found"
			}
		case "stop":
			cs := p.CommandStatement
			if cs == nil || len(cs.Elements) != 1 || cs.Elements[0].Expression == nil || cs.Elements[0].Expression.Value == nil ||
				cs.Elements[0].Expression.Value.String == nil || *cs.Elements[0].Expression.Value.String != "stop" {
				return "stop not found"
			}
		case "call":
			cs := p.CallStatement
			if cs == nil || cs.FunctionCall == nil || cs.FunctionID != g.name || len(cs.Arguments) != len(g.args) {
				return "call " + g.name + " not found"
			}
			for k, a := range g.args {
				if m := matchExpr(a, cs.Arguments[k]); m != "" {
					return "call " + g.name + ": " + m
				}
			}
		case "setop":
			ss := p.SetStatement
			wantOp := map[string]int{"+=": AdditionInPlaceOperator, "-=": SubtractionInPlaceOperator, "*=": MultiplicationInPlaceOperator, "/=": DivisionInPlaceOperator, "%=": ModuloInPlaceOperator}[g.op]
			if ss == nil || ss.VariableID != g.name[1:] || ss.InPlaceOperator != wantOp {
				return "set " + g.name + " " + g.op + " not found"
			}
			if m := matchExpr(g.expr, ss.Expression); m != "" {
				return "set " + g.name + " " + g.op + ": " + m
			}
		case "command":
			cs := p.CommandStatement
			words := strings.Fields(g.text)
			if cs == nil || len(cs.Elements) != len(words) {
				return "command " + g.text + " parsed with another number of elements"
			}
			for k, w := range words {
				e := cs.Elements[k].Expression
				switch {
				case e == nil:
					return "command " + g.text + ": element without expression"
				case w == "{$n}" || w == "{$b}":
					if e.VariableID == nil || *e.VariableID != w[2:3] {
						return "command " + g.text + ": inline expression " + w + " lost"
					}
				case strings.HasPrefix(w, "{\""):
					if e.Value == nil || e.Value.String == nil || *e.Value.String != strings.Trim(w, "{}\"") {
						return "command " + g.text + ": string literal expression " + w + " did not stay a string"
					}
				default:
					if w == "true" || w == "false" {
						if e.Value == nil || e.Value.Boolean == nil || *e.Value.Boolean != (w == "true") {
							return "command " + g.text + ": boolean word " + w
						}
					} else if f, err := strconv.ParseFloat(w, 64); err == nil {
						if e.Value == nil || e.Value.Number == nil || *e.Value.Number != f {
							return "command " + g.text + ": number word " + w
						}
					} else if e.Value == nil || e.Value.String == nil || *e.Value.String != w {
						return "command " + g.text + ": word " + w
					}
				}
			}
		}
	}
	if i != len(ps) {
		return fmt.Sprintf("%d extra statements", len(ps)-i)
	}
	return ""
}

func matchProgram(nodes []gNode, d *Dialogue) string {
	if d == nil || len(d.Nodes) != len(nodes) {
		return "another number of nodes"
	}
	for i, n := range nodes {
		if d.Nodes[i].Title() != n.title {
			return "node " + n.title + " has title " + d.Nodes[i].Title()
		}
		if m := matchStmts(n.body, d.Nodes[i].Statements); m != "" {
			return "node " + n.title + ": " + m
		}
	}
	return ""
}

var findingOf = map[string]string{
	"blank-nested":                "D9",
	"wsline-other-width-nested":   "D9",
	"comment-lower-indent-nested": "D9",
	"wsline-between-nodes":        "D23",
}

func TestBoundedParseLayouts(t *testing.T) {
	seed, _ := strconv.Atoi(os.Getenv("VERIF_SEED"))
	programs := 250
	if os.Getenv("VERIF_TIER") == "thorough" {
		programs = 4000
	}
	r := rand.New(rand.NewSource(int64(seed)*7919 + 17))
	features := []string{"none", "blank-top", "blank-nested", "wsline-same-width", "wsline-other-width-nested", "comment-same-indent",
		"comment-lower-indent-nested", "comment-top", "wsline-between-nodes", "blank-between-nodes"}
	units := []string{" ", "  ", "   ", "    ", "     ", "      ", "       ", "        ", "\t"}
	cases, distinct, viol := 0, map[string]bool{}, 0
	findings := map[string]int{}
	samples := 0
	for p := 0; p < programs; p++ {
		nodes := genProgram(r)
		canon := &layout{unit: "    ", r: r}
		cr := render(nodes, canon)
		want, err, pan := parseAll(cr)
		normalise(want)
		if err != nil || pan != nil {
			if viol < 5 {
				viol++
				fmt.Printf("BOUNDED-VIOLATION canonical-rendering-rejected %s\n", strconv.Quote(fmt.Sprintf("err=%v panic=%v script=%s", err, pan, cr[0])))
			}
			continue
		}
		if m := matchProgram(nodes, want); m != "" && viol < 5 {
			viol++
			fmt.Printf("BOUNDED-VIOLATION parsed-program-differs-from-the-script %s\n", strconv.Quote(m+" in script="+cr[0]))
		}
		{ // precedence and associativity: the same program with minimal parentheses
			ml := &layout{unit: "    ", r: r, minimal: true, spell: r.Intn(2)}
			got, err, pan := parseAll(render(nodes, ml))
			normalise(got)
			cases++
			if err != nil || pan != nil || !reflect.DeepEqual(want, got) {
				if viol < 5 {
					viol++
					fmt.Printf("BOUNDED-VIOLATION precedence-or-associativity %s\n", strconv.Quote(fmt.Sprintf("err=%v panic=%v script=%s", err, pan, render(nodes, ml)[0])))
				}
			}
		}
		for v := 0; v < 14; v++ {
			if os.Getenv("VERIF_BOUNDED_MODE") == "structure" {
				break // only the structural and precedence oracles: the layout variants (and their findings) are C08's
			}
			l := &layout{unit: units[r.Intn(len(units))], crlf: r.Intn(3) == 0, spell: r.Intn(2), parens: r.Intn(3) == 0, cmdSpaces: r.Intn(3) == 0,
				feature: features[v%len(features)], r: r, splitAt: map[int]bool{}, trailingCmt: v >= 10 && r.Intn(2) == 0}
			if v >= 10 { // variants 10..13: reader splits and trailing comments with no line insertion
				l.feature = "none"
				for i := range nodes {
					if r.Intn(2) == 0 && len(l.splitAt) < 2 {
						l.splitAt[i] = true
					}
				}
			}
			rs := render(nodes, l)
			key := strings.Join(rs, "\x00")
			cases++
			if distinct[key] || key == strings.Join(cr, "\x00") {
				continue
			}
			distinct[key] = true
			got, err, pan := parseAll(rs)
			normalise(got)
			ok := err == nil && pan == nil && reflect.DeepEqual(want, got)
			if samples < 3 && ok && l.inserted > 0 {
				samples++
				fmt.Printf("BOUNDED-SAMPLE %s\n", strconv.Quote(fmt.Sprintf("feature=%s unit=%q crlf=%v spell=%d readers=%d: %s", l.feature, l.unit, l.crlf, l.spell, len(rs), rs[0])))
			}
			if ok {
				continue
			}
			what := fmt.Sprintf("feature=%s unit=%q crlf=%v spell=%d parens=%v cmdSpaces=%v trailing=%v readers=%d err=%v panic=%v script=%s",
				l.feature, l.unit, l.crlf, l.spell, l.parens, l.cmdSpaces, l.trailingCmt, len(rs), err, pan, strings.Join(rs, "<<<reader>>>"))
			if f := findingOf[l.feature]; f != "" && l.inserted > 0 && pan == nil {
				if findings[f] == 0 {
					fmt.Printf("BOUNDED-FINDING %s %s\n", f, strconv.Quote(what))
				}
				findings[f]++
				continue
			}
			if viol < 5 {
				viol++
				fmt.Printf("BOUNDED-VIOLATION layout-changes-the-parse %s\n", strconv.Quote(what))
			}
		}
	}
	fmt.Printf("BOUNDED-CASES %d exhaustive=false distinct=%d\n", cases, len(distinct))
}
