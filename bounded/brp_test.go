package ysgo

// Bounded stand-in B-rp for roundPlaces (injected with go test -overlay; see /verif/DESIGN.md section 5).

import (
	"fmt"
	"math"
	"math/big"
	"math/rand"
	"os"
	"strconv"
	"testing"
)

func TestBoundedRoundPlaces(t *testing.T) {
	seed, _ := strconv.ParseInt(os.Getenv("VERIF_SEED"), 10, 64)
	perN := 200000
	if os.Getenv("VERIF_TIER") == "thorough" {
		perN = 2000000
	}
	rnd := rand.New(rand.NewSource(seed + 1))
	cases, distinct := 0, map[uint64]bool{}
	strictFindings := 0
	check := func(x float64, n int) {
		if math.IsNaN(x) || math.IsInf(x, 0) || math.Abs(x) >= 1<<52 {
			return
		}
		cases++
		if len(distinct) < 5000000 {
			distinct[math.Float64bits(x)^uint64(n)<<60] = true
		}
		r := roundPlaces(x, n)
		// |r - x| <= 0.5 * 10^-n exactly, over the rationals
		bx, br := new(big.Rat).SetFloat64(x), new(big.Rat).SetFloat64(r)
		if br == nil {
			fmt.Printf("BOUNDED-VIOLATION not-finite {\"x\": %q, \"n\": %d, \"r\": %v}\n", strconv.FormatFloat(x, 'g', -1, 64), n, r)
			return
		}
		diff := new(big.Rat).Sub(br, bx)
		diff.Abs(diff)
		half := new(big.Rat).SetFrac(big.NewInt(1), new(big.Int).Mul(big.NewInt(2), new(big.Int).Exp(big.NewInt(10), big.NewInt(int64(n)), nil)))
		if diff.Cmp(half) <= 0 {
			return
		}
		// beyond the exact bound: allowed only within the stated slack ulp(x) + ulp(r)
		slack := new(big.Rat).SetFloat64(math.Nextafter(math.Abs(x), math.Inf(1)) - math.Abs(x))
		slack.Add(slack, new(big.Rat).SetFloat64(math.Nextafter(math.Abs(r), math.Inf(1))-math.Abs(r)))
		if diff.Cmp(new(big.Rat).Add(half, slack)) <= 0 {
			strictFindings++
			return
		}
		fmt.Printf("BOUNDED-VIOLATION beyond-slack {\"x\": %q, \"n\": %d, \"r\": %q}\n", strconv.FormatFloat(x, 'g', -1, 64), n, strconv.FormatFloat(r, 'g', -1, 64))
	}
	for n := 0; n <= 8; n++ {
		p := math.Pow10(n)
		// structured values: ties, neighbours of ties, integers, halves
		for k := -2000; k <= 2000; k++ {
			tie := (float64(k) + 0.5) / p
			for _, x := range []float64{tie, math.Nextafter(tie, math.Inf(1)), math.Nextafter(tie, math.Inf(-1)), float64(k), float64(k) / p, float64(k) + 0.5, float64(k) * 1e6 / p} {
				check(x, n)
			}
		}
		for e := -30; e < 52; e++ {
			for _, m := range []float64{1, 1.5, 1.25, 1.9999999999999998} {
				check(math.Ldexp(m, e), n)
				check(-math.Ldexp(m, e), n)
			}
		}
		for i := 0; i < perN; i++ {
			var x float64
			switch i % 4 {
			case 0:
				x = math.Float64frombits(rnd.Uint64())
			case 1:
				x = (float64(rnd.Intn(2000000)-1000000) + 0.5) / p
			case 2:
				x = math.Nextafter((float64(rnd.Intn(2000000)-1000000)+0.5)/p, math.Inf(rnd.Intn(3)-1))
			default:
				x = (rnd.Float64() - 0.5) * math.Ldexp(1, rnd.Intn(52))
			}
			check(x, n)
		}
	}
	// the recorded witness of the strict reading (D20) is re-executed on every run
	r := roundPlaces(0.495, 2)
	if d := new(big.Rat).Sub(new(big.Rat).SetFloat64(r), new(big.Rat).SetFloat64(0.495)); d.Abs(d).Cmp(big.NewRat(1, 200)) > 0 {
		fmt.Printf("BOUNDED-FINDING D20 round_places(0.495, 2) = %v is farther than 0.005 from 0.495 (by less than one ulp); %d of the explored cases exceed the exact bound within the stated slack\n", r, strictFindings)
	}
	fmt.Printf("BOUNDED-SAMPLE {\"x\": 0.495, \"n\": 2, \"result\": %v}\n", r)
	fmt.Printf("BOUNDED-SAMPLE {\"x\": 10.234567, \"n\": 3, \"result\": %v}\n", roundPlaces(10.234567, 3))
	fmt.Printf("BOUNDED-CASES %d exhaustive=false distinct=%d\n", cases, len(distinct))
}
