package rng

// Bounded stand-in B-seed (injected with go test -overlay; nothing is written to /repo).
// Contract checked: int64ToSeed(v) does not panic for any int64 v, and for v >= 0 it returns the
// base-36 representation of v: seedToInt64(int64ToSeed(v)) == v and every rune is a base-36 digit.

import (
	"fmt"
	"math"
	"math/rand"
	"os"
	"strconv"
	"testing"
)

func TestBoundedSeed(t *testing.T) {
	seed, _ := strconv.Atoi(os.Getenv("VERIF_SEED"))
	n := 300000
	if os.Getenv("VERIF_TIER") == "thorough" {
		n = 5000000
	}
	r := rand.New(rand.NewSource(int64(seed) + 1))
	var vals []int64
	for v := int64(0); v <= 50000; v++ { // every small value
		vals = append(vals, v)
	}
	p := int64(1)
	for k := 0; k <= 12; k++ { // around every power of the radix
		for d := int64(-2); d <= 2; d++ {
			vals = append(vals, p+d, -(p + d))
		}
		if k < 12 {
			p *= 36
		}
	}
	vals = append(vals, math.MaxInt64, math.MaxInt64-1, math.MinInt64, math.MinInt64+1, -1)
	for i := 0; i < n; i++ { // random magnitudes
		v := r.Int63() >> uint(r.Intn(63))
		if r.Intn(8) == 0 {
			v = -v
		}
		vals = append(vals, v)
	}
	distinct := map[int64]bool{}
	viol := 0
	for _, v := range vals {
		distinct[v] = true
		func() {
			defer func() {
				if e := recover(); e != nil && viol < 5 {
					viol++
					fmt.Printf("BOUNDED-VIOLATION panic {\"value\": %d, \"panic\": %q}\n", v, fmt.Sprint(e))
				}
			}()
			s := int64ToSeed(v)
			if v < 0 {
				return
			}
			back, err := seedToInt64(s)
			if (err != nil || back != v) && viol < 5 {
				viol++
				fmt.Printf("BOUNDED-VIOLATION round-trip {\"value\": %d, \"seed\": %q, \"back\": %d}\n", v, s, back)
			}
		}()
	}
	for _, v := range []int64{0, 35, 36, 1295, 1296, math.MaxInt64} {
		fmt.Printf("BOUNDED-SAMPLE {\"value\": %d, \"seed\": %q}\n", v, int64ToSeed(v))
	}
	fmt.Printf("BOUNDED-CASES %d exhaustive=false distinct=%d\n", len(vals), len(distinct))
}
