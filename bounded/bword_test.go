package tree

// Bounded stand-in B-word (injected with go test -overlay; nothing is written to /repo).
// Contract checked: isDecimalLiteral(w) holds exactly for the words of the regular language -?[0-9]+(\.[0-9]+)?
// (exhaustive over an alphabet that contains every character class the scanner distinguishes).

import (
	"fmt"
	"os"
	"regexp"
	"strconv"
	"testing"
)

func TestBoundedWord(t *testing.T) {
	re := regexp.MustCompile(`^-?[0-9]+(\.[0-9]+)?$`)
	alphabet := []string{"0", "7", "-", ".", "e", "+", "x", "_", "é", " "}
	maxLen := 6
	if os.Getenv("VERIF_TIER") == "thorough" {
		maxLen = 7
	}
	cases, viol := 0, 0
	var rec func(w string, n int)
	rec = func(w string, n int) {
		cases++
		if got, want := isDecimalLiteral(w), re.MatchString(w); got != want && viol < 5 {
			viol++
			fmt.Printf("BOUNDED-VIOLATION scanner %s\n", strconv.Quote(fmt.Sprintf("isDecimalLiteral(%q) = %v, the regular expression says %v", w, got, want)))
		}
		if n == 0 {
			return
		}
		for _, a := range alphabet {
			rec(w+a, n-1)
		}
	}
	rec("", maxLen)
	for _, w := range []string{"12", "-3.50", "inf", "1e3", ".5", "5.", "0x10", "1_0", "+1", "--1", "1.2.3"} {
		fmt.Printf("BOUNDED-SAMPLE %s\n", strconv.Quote(fmt.Sprintf("%s -> %v", w, isDecimalLiteral(w))))
	}
	fmt.Printf("BOUNDED-CASES %d exhaustive=true distinct=%d\n", cases, cases)
}
