package main

import (
	"fmt"
	"go/token"
	"go/types"
	"strings"

	"golang.org/x/tools/go/ssa"
)

// calleeInfo describes what is being called and which contract applies.
type calleeInfo struct {
	name     string // display / ordinal name
	inline   *ssa.Function // module function without a contract: translated in place
	decl     *Decl
	sig      *types.Signature
	recvType types.Type // for methods / invokes
	pkg      *types.Package
	tenv     map[string]types.Type
	external bool
	dflt     bool
	funcValue bool
}

func (vc *VC) call(x *ssa.Call) {
	c := x.Common()
	// builtins
	if b, ok := c.Value.(*ssa.Builtin); ok {
		vc.builtin(x, b)
		return
	}
	// inside a package initialiser, the calls to the initialisers of the imported packages are no-ops: the Go runtime
	// has initialised every dependency before (their once-flags are set), and they cannot name this package's variables
	if callee, ok := c.Value.(*ssa.Function); ok && callee.Synthetic == "package initializer" && vc.fn != nil &&
		vc.fn.Synthetic == "package initializer" && callee != vc.fn {
		return
	}
	var args []Term
	var argTypes []types.Type
	info := vc.resolveCallee(c)
	if c.IsInvoke() {
		recv := vc.val(c.Value)
		vc.safe("nil", not(eq(app("ys.ityp", recv), "0")), x.Pos())
		args = append(args, recv)
		argTypes = append(argTypes, c.Value.Type())
	} else if _, static := c.Value.(*ssa.Function); !static {
		if _, isClosure := c.Value.(*ssa.MakeClosure); !isClosure {
			fv := vc.val(c.Value)
			vc.safe("nil", not(eq(fv, "0")), x.Pos())
		}
	}
	if info.funcValue && info.decl != nil {
		// the contract of a function type names the function value as its first parameter
		args = append(args, vc.val(c.Value))
		argTypes = append(argTypes, c.Value.Type())
	}
	for _, a := range c.Args {
		args = append(args, vc.val(a))
		argTypes = append(argTypes, a.Type())
	}
	var res []Term
	if info.inline != nil {
		res = vc.inlineCall(x, info.inline, args)
	} else {
		res = vc.applyContract(info, args, argTypes, x.Pos())
	}
	sigRes := c.Signature().Results()
	switch sigRes.Len() {
	case 0:
	case 1:
		vc.vals[x] = res[0]
	default:
		vc.tuples[x] = res
	}
}

func (vc *VC) resolveCallee(c *ssa.CallCommon) *calleeInfo {
	env := vc.env
	info := &calleeInfo{sig: c.Signature(), tenv: map[string]types.Type{}}
	if c.IsInvoke() {
		m := c.Method
		recv := m.Type().(*types.Signature).Recv().Type()
		tn := "error"
		if n, ok := types.Unalias(recv).(*types.Named); ok {
			tn = qual(n.Obj().Pkg()) + "." + n.Obj().Name()
			info.pkg = n.Obj().Pkg()
			if tn == ".error" {
				tn = "error"
			}
		}
		info.name = tn + "." + m.Name()
		info.recvType = c.Value.Type()
		info.decl = env.ifaceC[info.name]
		if info.decl == nil {
			info.dflt = true
		}
		info.external = info.pkg == nil || !strings.HasPrefix(info.pkg.Path(), modulePath)
		return info
	}
	var fn *ssa.Function
	switch v := c.Value.(type) {
	case *ssa.Function:
		fn = v
	case *ssa.MakeClosure:
		fn = v.Fn.(*ssa.Function)
	}
	if fn == nil {
		// call through a function value: contract of its named function type, if any
		info.funcValue = true
		if n, ok := types.Unalias(c.Value.Type()).(*types.Named); ok {
			info.name = qual(n.Obj().Pkg()) + "." + n.Obj().Name()
			info.pkg = n.Obj().Pkg()
			info.decl = env.ftypeC[info.name]
		} else {
			info.name = "func-value:" + typeKey(c.Value.Type())
		}
		if info.decl == nil {
			info.dflt = true
			info.external = true
		}
		return info
	}
	orig := fn
	if fn.Origin() != nil {
		orig = fn.Origin()
		tps := orig.TypeParams()
		targs := fn.TypeArgs()
		for i := 0; tps != nil && i < tps.Len() && i < len(targs); i++ {
			info.tenv[tps.At(i).Obj().Name()] = targs[i]
		}
	}
	if recv := fn.Signature.Recv(); recv != nil {
		if n := namedOf(recv.Type()); n != nil && n.TypeArgs() != nil {
			op := n.Origin().TypeParams()
			for i := 0; i < n.TypeArgs().Len(); i++ {
				info.tenv[op.At(i).Obj().Name()] = n.TypeArgs().At(i)
			}
		}
	}
	if orig.Pkg != nil {
		info.pkg = orig.Pkg.Pkg
	}
	inModule := orig.Pkg != nil && strings.HasPrefix(orig.Pkg.Pkg.Path(), modulePath)
	if !inModule && orig.Parent() != nil {
		p := orig.Parent()
		for p.Parent() != nil {
			p = p.Parent()
		}
		inModule = p.Pkg != nil && strings.HasPrefix(p.Pkg.Pkg.Path(), modulePath)
		if p.Pkg != nil {
			info.pkg = p.Pkg.Pkg
		}
	}
	if inModule {
		info.name = funcKey(fn)
		info.decl = env.funcC[info.name]
		if info.decl == nil {
			if _, static := c.Value.(*ssa.Function); static && fn.Origin() == nil && vc.inlinable(fn) == "" {
				info.inline = fn
				return info
			}
			why := "a call through a closure or an instantiated generic"
			if _, static := c.Value.(*ssa.Function); static && fn.Origin() == nil {
				why = vc.inlinable(fn)
			}
			panic(unsupported("call to " + info.name + ", which has no contract and cannot be inlined (" + why + ")"))
		}
		return info
	}
	info.external = true
	info.name = extName(fn)
	info.decl = env.extC[info.name]
	if info.decl == nil {
		info.dflt = true
	}
	return info
}

// applyContract checks the callee's preconditions, havocs its frame and assumes its
// postconditions. Only the contract is visible, never the body.
func (vc *VC) applyContract(info *calleeInfo, args []Term, argTypes []types.Type, pos token.Pos) []Term {
	k := vc.callCount[info.name]
	vc.callCount[info.name] = k + 1
	site := fmt.Sprintf("%s#%d", info.name, k)
	vc.curArgs = vc.argVars(args, argTypes)
	defer func() { vc.curArgs = nil }()
	// caller's own assertions / ghost code anchored before this call
	for _, c := range vc.decl.Clauses {
		if calleeMatches(c.Callee, info.name) {
			if c.CallK != k {
				continue
			}
			switch {
			case c.Kind == "assert":
				vc.anchorUsed(c)
				ctx := vc.ctx(vc.cur, vc.entry)
				ctx.loopScope = pos
				ctx.vars = vc.argVars(args, argTypes)
				vc.oblige("assert", c.Label, ctx.formula(c.E), pos)
			case c.Kind == "ghost" && c.Anchor == "before-call":
				vc.anchorUsed(c)
				vc.ghostBlockAt(c, pos, nil)
			}
		}
	}
	res := info.sig.Results()
	var results []Term
	if info.dflt {
		vc.defaults[info.name] = true
		vc.havocNext()
		for i := 0; i < res.Len(); i++ {
			r := vc.fresh("r."+shortCallee(info.name), vc.reg.sortOf(res.At(i).Type()))
			vc.assumeValid(r, res.At(i).Type())
			results = append(results, r)
		}
		return results
	}
	d := info.decl
	if info.external {
		vc.externals[info.name] = true
	}
	var names []Param
	if d.Recv != nil {
		names = append(names, *d.Recv)
	}
	names = append(names, d.Params...)
	if len(names) != len(args) {
		panic(fmt.Errorf("contract of %s lists %d parameters, call passes %d", info.name, len(names), len(args)))
	}
	pre := vc.cur.clone()
	vc.callPre = pre
	bind := map[string]binding{}
	for i, n := range names {
		bind[n.Name] = binding{t: args[i], typ: goT(argTypes[i])}
	}
	mk := func(cur, old *State) *sctx {
		c := &sctx{vc: vc, cur: cur, old: old, vars: map[string]binding{}, names: bind, pkg: info.pkg, tenv: info.tenv, resNames: d.Results}
		if d.Pkg != "" {
			if sp := vc.env.byName[d.Pkg]; sp != nil {
				c.pkg = sp.Pkg
			}
		}
		return c
	}
	// 1. preconditions
	ctx := mk(pre, pre)
	for i, c := range d.Clauses {
		if c.Kind == "requires" {
			vc.oblige("pre", fmt.Sprintf("%s@call %s", labelOr(c.Label, i), site), ctx.formula(c.E), pos)
		}
	}
	for _, c := range d.Clauses {
		if c.Kind == "panics" {
			// the callee panics exactly under its declared condition: the call returns only otherwise. The
			// propagation of a declared panic through the callers is not tracked (listed as an assumption).
			vc.assume(not(ctx.formula(c.E)))
			vc.assumes["declared panic of "+info.name+" ("+c.Label+"): its propagation to the recovering caller is not tracked by contracts"] = true
		}
	}
	// 2. frame
	vc.havocNext()
	for _, c := range d.Clauses {
		if c.Kind != "modifies" {
			continue
		}
		for _, m := range c.Mods {
			for _, tg := range ctx.modTargets(m) {
				vc.havocTarget(tg)
			}
		}
	}
	// 3. results and postconditions
	var resTypes []types.Type
	for i := 0; i < res.Len(); i++ {
		r := vc.fresh("r."+shortCallee(info.name), vc.reg.sortOf(res.At(i).Type()))
		vc.assumeValid(r, res.At(i).Type())
		results = append(results, r)
		resTypes = append(resTypes, res.At(i).Type())
	}
	post := mk(vc.cur, pre)
	post.results = results
	post.resTypes = resTypes
	if len(d.Results) != 0 && len(d.Results) != len(results) {
		panic(fmt.Errorf("contract of %s lists %d results, signature has %d", info.name, len(d.Results), len(results)))
	}
	for _, c := range d.Clauses {
		if c.Kind == "ensures" {
			vc.assume(post.formula(c.E))
		}
	}
	for _, c := range vc.decl.Clauses {
		if calleeMatches(c.Callee, info.name) && c.CallK == k && c.Kind == "ghost" && c.Anchor == "after-call" {
			vc.anchorUsed(c)
			vc.ghostBlockAtT(c, pos, results, resTypes)
		}
	}
	return results
}

func (vc *VC) argVars(args []Term, argTypes []types.Type) map[string]binding {
	m := map[string]binding{}
	for i := range args {
		m[fmt.Sprintf("arg%d", i)] = binding{t: args[i], typ: goT(argTypes[i])}
	}
	return m
}

// calleeMatches: an anchor may name the callee in full ("container.(Stack).Push"), in short form or
// by its bare function / method name ("Push").
func calleeMatches(anchor, name string) bool {
	if anchor == "" {
		return false
	}
	return anchor == name || anchor == shortCallee(name) || strings.HasSuffix(name, "."+anchor)
}

func (vc *VC) anchorUsed(c *Clause) {
	if vc.usedAnchors == nil {
		vc.usedAnchors = map[*Clause]bool{}
	}
	vc.usedAnchors[c] = true
}

// shortCallee: "rand.(*Rand).Intn" style short names are accepted in assert/ghost anchors.
func shortCallee(name string) string {
	if i := strings.LastIndex(name, "/"); i >= 0 {
		rest := name[i+1:]
		if strings.HasPrefix(name, "(*") {
			return "(*" + rest
		}
		if strings.HasPrefix(name, "(") {
			return "(" + rest
		}
		return rest
	}
	return name
}

func (vc *VC) havocNext() {
	n := vc.fresh("next", sInt)
	vc.assume(app(">=", n, vc.next(vc.cur)))
	// the allocation counter never falls below its entry value: stated directly, so that freshness
	// arguments need not walk the chain of intermediate states
	for _, a := range vc.nextAnchors() {
		vc.assume(app(">=", n, a))
	}
	vc.cur.comps[compNext] = n
}

// nextAnchors: the allocation counter at function entry and at the head of every enclosing loop. The
// counter only grows, so every later value is stated to be at least each of them (directly: freshness
// and validity arguments then need not walk the chain of intermediate states).
func (vc *VC) nextAnchors() []Term {
	var out []Term
	if vc.entry != nil {
		out = append(out, vc.next(vc.entry))
	}
	if b := vc.tagBlock(); b != nil {
		for _, li := range vc.loops {
			if li.headSt != nil && li.blocks[b] {
				out = append(out, vc.next(li.headSt))
			}
		}
	}
	return out
}

func (vc *VC) havocTarget(tg modTarget) {
	vc.compEntry(tg.comp, tg.sort)
	if tg.whole {
		vc.cur.comps[tg.comp] = vc.fresh(compPrefix(tg.comp), tg.sort)
		vc.assumeCompValid(vc.cur.comps[tg.comp], tg.sort, false)
		vc.assumeRefsValid(tg.comp, vc.cur.comps[tg.comp], vc.next(vc.cur), false)
		return
	}
	// element sort of "(Array Int X)"
	es := strings.TrimSuffix(strings.TrimPrefix(tg.sort, "(Array Int "), ")")
	v := vc.fresh("hv", es)
	vc.assumeCompValid(v, es, false)
	switch vc.refComps[tg.comp] {
	case 1:
		vc.assume(app("<", v, vc.next(vc.cur)))
	case 2:
		vc.assume(fmt.Sprintf("(forall ((k Int)) (! (< (select %s k) %s) :pattern ((select %s k))))", v, vc.next(vc.cur), v))
	}
	vc.setComp(vc.cur, tg.comp, tg.sort, app("store", vc.comp(vc.cur, tg.comp, tg.sort), tg.ref, v))
	if vc.tracked(tg.comp) {
		ic := "I." + tg.comp
		b := vc.fresh("init", sBool)
		old := vc.comp(vc.cur, ic, "(Array Int Bool)")
		vc.assume(implies(app("select", old, tg.ref), b))
		vc.setComp(vc.cur, ic, "(Array Int Bool)", app("store", old, tg.ref, b))
	}
}

// ---- ghost code ---------------------------------------------------------------------------------------

func (vc *VC) ghostBlockAt(c *Clause, pos token.Pos, results []Term) {
	vc.ghostBlockAtT(c, pos, results, nil)
}

// ghostBlockAtT runs ghost code anchored at a call; the call's results are visible as callres
// (callres0, callres1, ... for several results).
func (vc *VC) ghostBlockAtT(c *Clause, pos token.Pos, results []Term, types []types.Type) {
	ctx := vc.ctx(vc.cur, vc.entry)
	ctx.loopScope = pos
	ctx.before = vc.callPre
	for k, v := range vc.curArgs {
		ctx.vars[k] = v
	}
	for i := range results {
		if i < len(types) {
			b := binding{t: results[i], typ: goT(types[i])}
			ctx.vars[fmt.Sprintf("callres%d", i)] = b
			if i == 0 {
				ctx.vars["callres"] = b
			}
		}
	}
	vc.runGhost(c, ctx, nil)
}

func (vc *VC) ghostBlock(c *Clause, cur, old *State, results []Term) {
	ctx := vc.ctx(cur, old)
	if results != nil {
		ctx.bindResults(results)
	}
	vc.runGhost(c, ctx, results)
}

func (vc *VC) runGhost(c *Clause, ctx *sctx, results []Term) {
	if results != nil && ctx.results == nil && len(vc.results) == len(results) {
		ctx.bindResults(results)
	}
	for _, s := range c.Stmts {
		switch s.Kind {
		case "assume":
			vc.assumes[fmt.Sprintf("ghost assume in contract of %s (%s:%d)", vc.key, s.P.File, s.P.Line)] = true
			vc.assume(ctx.formula(s.RHS))
		case "assert":
			vc.oblige("assert", s.Label, ctx.formula(s.RHS), token.NoPos)
		case "assign":
			v, _ := ctx.expr(s.RHS)
			tgs := ctx.modTargets(s.LHS)
			if len(tgs) != 1 {
				panic(specErr(s.LHS, "ghost assignment needs a single ghost location"))
			}
			tg := tgs[0]
			if !strings.HasPrefix(tg.comp, "G.") && !strings.HasPrefix(tg.comp, "L.") {
				panic(specErr(s.LHS, "ghost code may assign only ghost state"))
			}
			if tg.whole {
				vc.setComp(ctx.cur, tg.comp, tg.sort, v)
			} else {
				vc.setComp(ctx.cur, tg.comp, tg.sort, app("store", vc.comp(ctx.cur, tg.comp, tg.sort), tg.ref, v))
			}
		}
	}
}

// ---- builtins -----------------------------------------------------------------------------------------

func (vc *VC) builtin(x *ssa.Call, b *ssa.Builtin) {
	args := x.Call.Args
	if !strings.HasPrefix(b.Name(), "ssa:") {
		k := vc.callCount[b.Name()]
		vc.callCount[b.Name()] = k + 1
		vc.callPre = vc.cur.clone()
		defer func() {
			for _, c := range vc.decl.Clauses {
				if c.Callee == b.Name() && c.CallK == k && c.Kind == "ghost" && c.Anchor == "after-call" {
					vc.anchorUsed(c)
					if t, ok := vc.vals[x]; ok {
						vc.ghostBlockAtT(c, x.Pos(), []Term{t}, []types.Type{x.Type()})
					} else {
						vc.ghostBlockAt(c, x.Pos(), nil)
					}
				}
			}
		}()
	}
	switch b.Name() {
	case "ssa:deferstack":
		vc.vals[x] = "0"
	case "ssa:wrapnilchk":
		v := vc.val(args[0])
		vc.safe("nil", not(eq(v, "0")), x.Pos())
		vc.vals[x] = v
	case "len":
		v := vc.val(args[0])
		switch u := args[0].Type().Underlying().(type) {
		case *types.Slice:
			vc.setVal(x, app("ys.len", v))
		case *types.Basic:
			vc.setVal(x, app("str.len", v))
		case *types.Map:
			d, _, ds, _ := vc.mapComps(u)
			fn := sym("ys.card." + sanitizeFile(vc.reg.sortOf(u.Key())))
			vc.reg.decl(fn, fmt.Sprintf("(declare-fun %s ((Array %s Bool)) Int)", fn, vc.reg.sortOf(u.Key())))
			r := vc.define(x.Name(), sInt, ite(eq(v, "0"), "0", app(fn, app("select", vc.comp(vc.cur, d, ds), v))))
			vc.assume(app(">=", r, "0"))
			vc.vals[x] = r
		case *types.Array:
			vc.vals[x] = fmt.Sprint(u.Len())
		case *types.Pointer:
			vc.vals[x] = fmt.Sprint(u.Elem().Underlying().(*types.Array).Len())
		case *types.Chan:
			vc.setVal(x, app("select", vc.comp(vc.cur, "H.chancnt", "(Array Int Int)"), v))
		default:
			panic(unsupported("len of " + args[0].Type().String()))
		}
	case "cap":
		v := vc.val(args[0])
		switch args[0].Type().Underlying().(type) {
		case *types.Slice:
			vc.setVal(x, app("ys.cap", v))
		default:
			panic(unsupported("cap of " + args[0].Type().String()))
		}
	case "append":
		vc.appendBuiltin(x)
	case "copy":
		vc.copyBuiltin(x)
	case "delete":
		u := args[0].Type().Underlying().(*types.Map)
		m, k := vc.val(args[0]), vc.val(args[1])
		d, _, ds, _ := vc.mapComps(u)
		cd := vc.comp(vc.cur, d, ds)
		vc.setComp(vc.cur, d, ds, ite(eq(m, "0"), cd, app("store", cd, m, app("store", app("select", cd, m), k, "false"))))
	case "min", "max":
		a, bb := vc.val(args[0]), vc.val(args[1])
		if !isInteger(args[0].Type()) {
			panic(unsupported("min/max on non-integers"))
		}
		if b.Name() == "min" {
			vc.setVal(x, ite(app("<=", a, bb), a, bb))
		} else {
			vc.setVal(x, ite(app(">=", a, bb), a, bb))
		}
	case "print", "println":
	default:
		panic(unsupported("builtin " + b.Name()))
	}
}

func (vc *VC) appendBuiltin(x *ssa.Call) {
	args := x.Call.Args
	st := x.Type().Underlying().(*types.Slice)
	et := st.Elem()
	s := vc.val(args[0])
	if isString(args[1].Type()) {
		panic(unsupported("append([]byte, string...)"))
	}
	t := vc.val(args[1])
	comp, cs := vc.elemsComp(et)
	es := vc.reg.sortOf(et)
	slen := vc.define("slen", sInt, app("ys.len", s))
	soff := vc.define("soff", sInt, app("ys.off", s))
	n := vc.define("an", sInt, app("ys.len", t))
	newLen := vc.define("alen", sInt, app("+", slen, n))
	fits := vc.define("fits", sBool, app("<=", newLen, app("ys.cap", s)))
	cur := vc.comp(vc.cur, comp, cs)
	src := vc.define("asrc", "(Array Int "+es+")", app("select", cur, app("ys.arr", t)))
	dstOld := vc.define("adst", "(Array Int "+es+")", app("select", cur, app("ys.arr", s)))
	r := vc.define("aref", sInt, vc.next(vc.cur))
	newCap := vc.fresh("acap", sInt)
	vc.assume(and(app(">=", newCap, newLen), app("<=", newCap, "72057594037927936")))
	// the result's backing array (the old one if the elements fit, a fresh one otherwise), its offset
	// and its new content A, described uniformly relative to the result's offset
	rarr := vc.define("rarr", sInt, ite(fits, app("ys.arr", s), r))
	roff := vc.define("roff", sInt, ite(fits, soff, "0"))
	A := vc.fresh("acontent", "(Array Int "+es+")")
	sel := func(a, k Term) Term { return app("select", a, k) }
	elt := vc.reg.eltFn(es)
	toff := vc.define("toff", sInt, app("ys.off", t))
	// old elements keep their values (stated through the element-access function, so that no
	// arithmetic occurs in the pattern or is needed to use the fact)
	vc.assume(fmt.Sprintf("(forall ((j Int)) (! (=> (and (<= 0 j) (< j %s)) (= (%s %s %s j) (%s %s %s j))) :pattern ((%s %s %s j))))",
		slen, elt, A, roff, elt, dstOld, soff, elt, A, roff))
	// appended elements: a single one (the common case) without a quantifier
	single := false
	if sl, ok := args[1].(*ssa.Slice); ok {
		if a, ok := sl.X.(*ssa.Alloc); ok && a.Comment == "varargs" {
			if arr, ok := deref(a.Type()).Underlying().(*types.Array); ok && arr.Len() == 1 {
				single = true
			}
		}
	}
	if single {
		vc.assume(eq(app(elt, A, roff, slen), sel(src, toff)))
	} else {
		vc.assume(fmt.Sprintf("(forall ((j Int)) (! (=> (and (<= %s j) (< j %s)) (= (%s %s %s j) (%s %s %s (- j %s)))) :pattern ((%s %s %s j))))",
			slen, newLen, elt, A, roff, elt, src, toff, slen, elt, A, roff))
	}
	// in place: everything outside the appended range is untouched (visible through aliases)
	vc.assume(implies(fits, fmt.Sprintf("(forall ((k Int)) (! (=> (or (< k (+ %s %s)) (>= k (+ %s %s))) (= %s %s)) :pattern (%s)))",
		roff, slen, roff, newLen, sel(A, "k"), sel(dstOld, "k"), sel(A, "k"))))
	// appending nothing in place changes nothing
	vc.setComp(vc.cur, comp, cs, ite(and(fits, eq(n, "0")), cur, app("store", cur, rarr, A)))
	vc.setComp(vc.cur, compNext, sInt, ite(fits, vc.next(vc.cur), app("+", r, "1")))
	vc.setVal(x, app("ys.mkslice", rarr, roff, newLen, ite(fits, app("ys.cap", s), newCap)))
}

func (vc *VC) copyBuiltin(x *ssa.Call) {
	args := x.Call.Args
	if isString(args[1].Type()) {
		panic(unsupported("copy from string"))
	}
	et := args[0].Type().Underlying().(*types.Slice).Elem()
	dst, src := vc.val(args[0]), vc.val(args[1])
	comp, cs := vc.elemsComp(et)
	es := vc.reg.sortOf(et)
	n := vc.define("cn", sInt, ite(app("<=", app("ys.len", dst), app("ys.len", src)), app("ys.len", dst), app("ys.len", src)))
	cur := vc.comp(vc.cur, comp, cs)
	srcA := vc.define("csrc", "(Array Int "+es+")", app("select", cur, app("ys.arr", src)))
	dstA := vc.define("cdst", "(Array Int "+es+")", app("select", cur, app("ys.arr", dst)))
	out := vc.fresh("ccopy", "(Array Int "+es+")")
	// memmove semantics: the new content is defined pointwise from the old source
	vc.assume(fmt.Sprintf("(forall ((k Int)) (! (= (select %s k) (ite (and (<= %s k) (< k (+ %s %s))) (select %s (+ %s (- k %s))) (select %s k))) :pattern ((select %s k))))",
		out, app("ys.off", dst), app("ys.off", dst), n, srcA, app("ys.off", src), app("ys.off", dst), dstA, out))
	vc.setComp(vc.cur, comp, cs, ite(eq(n, "0"), cur, app("store", cur, app("ys.arr", dst), out)))
	vc.vals[x] = n
}

// ---- closures, ranges, channels ---------------------------------------------------------------------------

func (vc *VC) makeClosure(x *ssa.MakeClosure) {
	fn := x.Fn.(*ssa.Function)
	r := vc.alloc(vc.cur)
	vc.vals[x] = r
	// capture invariant of the closure's contract, if it has one
	d := vc.env.funcC[funcKey(fn)]
	if d == nil {
		return
	}
	bind := map[string]binding{}
	for i, fv := range fn.FreeVars {
		bind[fv.Name()] = binding{t: vc.val(x.Bindings[i]), typ: goT(fv.Type())}
	}
	ctx := &sctx{vc: vc, cur: vc.cur, old: vc.entry, vars: map[string]binding{}, names: bind, pkg: vc.ctx(vc.cur, vc.entry).pkg, tenv: map[string]types.Type{}}
	for i, c := range d.Clauses {
		if c.Kind == "requires" && strings.HasPrefix(c.Label, "capture") {
			vc.oblige("capture", fmt.Sprintf("%s.%s", funcKey(fn), labelOr(c.Label, i)), ctx.formula(c.E), x.Pos())
		}
	}
}

func (vc *VC) rangeStart(x *ssa.Range) {
	name := "R." + x.Name()
	switch u := x.X.Type().Underlying().(type) {
	case *types.Map:
		ks := vc.reg.sortOf(u.Key())
		vc.setComp(vc.cur, name+".seen", "(Array "+ks+" Bool)", fmt.Sprintf("((as const (Array %s Bool)) false)", ks))
		vc.rangeOf[x] = &rangeInfo{x: x.X, isMap: true}
		vc.assumes["range over a map: the map is not modified while it is iterated"] = true
	case *types.Basic:
		vc.setComp(vc.cur, name+".pos", sInt, "0")
		vc.setComp(vc.cur, name+".k", sInt, "0")
		vc.rangeOf[x] = &rangeInfo{x: x.X}
	default:
		panic(unsupported("range over " + x.X.Type().String()))
	}
	vc.vals[x] = "0"
}

func (vc *VC) rangeNext(x *ssa.Next) {
	rg := x.Iter.(*ssa.Range)
	ri := vc.rangeOf[rg]
	name := "R." + rg.Name()
	if ri.isMap {
		u := rg.X.Type().Underlying().(*types.Map)
		ks, vs := vc.reg.sortOf(u.Key()), vc.reg.sortOf(u.Elem())
		m := vc.val(rg.X)
		d, v, ds, vss := vc.mapComps(u)
		dom := app("select", vc.comp(vc.cur, d, ds), m)
		seen := vc.comp(vc.cur, name+".seen", "(Array "+ks+" Bool)")
		ok := vc.fresh(x.Name()+".ok", sBool)
		k := vc.fresh(x.Name()+".k", ks)
		val := vc.fresh(x.Name()+".v", vs)
		vc.assume(implies(ok, and(not(eq(m, "0")), app("select", dom, k), not(app("select", seen, k)), eq(val, app("select", app("select", vc.comp(vc.cur, v, vss), m), k)))))
		vc.assume(implies(not(ok), or(eq(m, "0"), fmt.Sprintf("(forall ((k %s)) (! (=> (select %s k) (select %s k)) :pattern ((select %s k))))", ks, dom, seen, dom))))
		vc.assumeValid(k, u.Key())
		vc.assumeValid(val, u.Elem())
		vc.setComp(vc.cur, name+".seen", "(Array "+ks+" Bool)", ite(ok, app("store", seen, k, "true"), seen))
		vc.tuples[x] = []Term{ok, k, val}
		return
	}
	s := vc.val(rg.X)
	pos := vc.comp(vc.cur, name+".pos", sInt)
	ok := vc.define(x.Name()+".ok", sBool, app("<", pos, app("str.len", s)))
	w := vc.fresh(x.Name()+".w", sInt)
	r := vc.fresh(x.Name()+".r", sInt)
	b := app("str.to_code", app("str.at", s, pos))
	vc.assume(implies(ok, and(app("<=", "1", w), app("<=", w, "4"), app("<=", app("+", pos, w), app("str.len", s)),
		ite(app("<", b, "128"), and(eq(r, b), eq(w, "1")), and(app(">=", r, "128"), app("<=", r, "1114111"))))))
	// UTF-8: the bytes of a multi-byte sequence (and a byte decoded as RuneError, width 1) are all >= 0x80
	vc.assume(implies(ok, fmt.Sprintf("(forall ((j Int)) (! (=> (and (< %s j) (< j (+ %s %s))) (>= (str.to_code (str.at %s j)) 128)) :pattern ((str.at %s j))))", pos, pos, w, s, s)))
	vc.assume(app(">=", pos, "0"))
	vc.setComp(vc.cur, name+".pos", sInt, ite(ok, app("+", pos, w), pos))
	// the same iteration seen as a walk over []rune(s): the k-th iteration yields runeAt(s, k), and there are
	// runeLen(s) of them ("rangecount" in contracts)
	k := vc.comp(vc.cur, name+".k", sInt)
	vc.reg.decl("ys.x.runeLen", "(declare-fun ys.x.runeLen (String) Int)")
	vc.reg.decl("ys.x.runeAt", "(declare-fun ys.x.runeAt (String Int) Int)")
	vc.assume(and(app(">=", k, "0"), eq(ok, app("<", k, app("ys.x.runeLen", s))), implies(ok, eq(r, app("ys.x.runeAt", s, k)))))
	vc.setComp(vc.cur, name+".k", sInt, ite(ok, app("+", k, "1"), k))
	vc.tuples[x] = []Term{ok, pos, r}
}

const worldComp = "G.var.World"

func (vc *VC) worldSort() string {
	vc.declDatatype("World")
	return sym("ys.D.World")
}

func (vc *VC) world() Term { return vc.comp(vc.cur, worldComp, vc.worldSort()) }

func (vc *VC) chanFns() {
	ws := vc.worldSort()
	vc.reg.decl("ys.x.ready", fmt.Sprintf("(declare-fun ys.x.ready (%s Int) Bool)\n(declare-fun ys.x.recvW (%s Int) %s)", ws, ws, ws))
}

// recvFn: the value a ready channel delivers, per element sort.
func (vc *VC) recvFn(elem types.Type) string {
	vc.chanFns()
	s := vc.reg.sortOf(elem)
	n := sym("ys.x.recv." + sanitizeFile(s))
	vc.reg.decl(n, fmt.Sprintf("(declare-fun %s (%s Int) %s)", n, vc.worldSort(), s))
	return n
}

// selectInstr: only the non-blocking poll of one receive case is in the subset.
func (vc *VC) selectInstr(x *ssa.Select) {
	if x.Blocking || len(x.States) != 1 || x.States[0].Dir != types.RecvOnly {
		panic(unsupported("select other than a non-blocking single receive"))
	}
	vc.chanFns()
	et := x.States[0].Chan.Type().Underlying().(*types.Chan).Elem()
	ch := vc.val(x.States[0].Chan)
	w := vc.world()
	// a nil channel is never ready; otherwise readiness is the environment's choice (a function of the world)
	ready := vc.define(x.Name()+".ready", sBool, and(not(eq(ch, "0")), app("ys.x.ready", w, ch)))
	idx := vc.define(x.Name()+".idx", sInt, ite(ready, "0", "(- 1)"))
	val := vc.define(x.Name()+".val", vc.reg.sortOf(et), ite(ready, app(vc.recvFn(et), w, ch), vc.reg.zero(et)))
	vc.assumeValid(val, et)
	vc.setComp(vc.cur, worldComp, vc.worldSort(), ite(ready, app("ys.x.recvW", w, ch), w))
	vc.tuples[x] = []Term{idx, ready, val}
}

func (vc *VC) recv(x *ssa.UnOp) {
	panic(unsupported("blocking channel receive (effect MayBlock)"))
}

func (vc *VC) send(x *ssa.Send) {
	ch := vc.val(x.Chan)
	v := vc.val(x.X)
	et := x.Chan.Type().Underlying().(*types.Chan).Elem()
	cnt := vc.comp(vc.cur, "H.chancnt", "(Array Int Int)")
	cp := vc.comp(vc.cur, "H.chancap", "(Array Int Int)")
	k := vc.ordinal("effect:send")
	vc.oblige("effect", fmt.Sprintf("send-never-blocks@%d", k), and(not(eq(ch, "0")), app("<", app("select", cnt, ch), app("select", cp, ch))), x.Pos())
	vc.setComp(vc.cur, "H.chancnt", "(Array Int Int)", app("store", cnt, ch, app("+", app("select", cnt, ch), "1")))
	// a value sitting in the buffer makes the channel ready, and it is what the next receive delivers
	// (sequential code; the channel has no other receiver in between)
	w := vc.world()
	vc.assume(and(app("ys.x.ready", w, ch), implies(eq(app("select", cnt, ch), "0"), eq(app(vc.recvFn(et), w, ch), v))))
	vc.assumes["a value sent into a channel's empty buffer is what its next receive delivers (no concurrent receiver)"] = true
}

// callWrites: components a call inside a loop may modify (from the callee's modifies clauses).
func (vc *VC) callWrites(x ssa.CallInstruction, compSet map[string]bool) {
	c := x.Common()
	if b, ok := c.Value.(*ssa.Builtin); ok {
		switch b.Name() {
		case "append", "copy":
			if sl, ok := c.Args[0].Type().Underlying().(*types.Slice); ok {
				comp, _ := vc.elemsComp(sl.Elem())
				compSet[comp] = true
			}
		case "delete":
			d, v, _, _ := vc.mapComps(c.Args[0].Type().Underlying().(*types.Map))
			compSet[d], compSet[v] = true, true
		}
		return
	}
	if _, isGo := x.(*ssa.Go); isGo {
		return
	}
	info := vc.resolveCallee(c)
	if info.decl == nil {
		return
	}
	d := info.decl
	// resolve modifies targets with dummy bindings: only the component names matter
	var names []Param
	if d.Recv != nil {
		names = append(names, *d.Recv)
	}
	names = append(names, d.Params...)
	bind := map[string]binding{}
	var argTypes []types.Type
	if c.IsInvoke() || info.funcValue {
		argTypes = append(argTypes, c.Value.Type())
	}
	for _, a := range c.Args {
		argTypes = append(argTypes, a.Type())
	}
	if len(names) != len(argTypes) {
		panic(fmt.Errorf("contract of %s lists %d parameters, call passes %d", info.name, len(names), len(argTypes)))
	}
	for i, n := range names {
		bind[n.Name] = binding{t: "0", typ: goT(argTypes[i])}
	}
	ctx := &sctx{vc: vc, cur: vc.cur, old: vc.cur, vars: map[string]binding{}, names: bind, pkg: info.pkg, tenv: info.tenv}
	if d.Pkg != "" {
		if sp := vc.env.byName[d.Pkg]; sp != nil {
			ctx.pkg = sp.Pkg
		}
	}
	for _, cl := range d.Clauses {
		if cl.Kind == "modifies" {
			for _, m := range cl.Mods {
				for _, tg := range ctx.modTargets(m) {
					vc.compEntry(tg.comp, tg.sort)
					compSet[tg.comp] = true
					if vc.tracked(tg.comp) {
						compSet["I."+tg.comp] = true
					}
				}
			}
		}
	}
}

// applyLoopFrame: at the head of an arbitrary iteration, every location that was allocated before
// and is outside the frame keeps its earlier value. With "loop k: modifies ..." the frame is that
// list relative to the state on loop entry; otherwise it is the function's own modifies clause
// relative to the function's entry state (checked on loop entry and at every back edge, so the
// assumption is inductive).
func (vc *VC) applyLoopFrame(li *loopInfo, pre *State, comps []string) {
	var clauses []*Clause
	base := pre
	explicit := len(li.mods) > 0
	if explicit {
		clauses = li.mods
	} else {
		base = vc.entry
		for _, c := range vc.decl.Clauses {
			if c.Kind == "modifies" {
				clauses = append(clauses, c)
			}
		}
	}
	ctx := vc.ctx(base, vc.entry)
	if explicit {
		ctx.loopScope = vc.loopPos(li)
	}
	allowed := map[string][]Term{}
	whole := map[string]bool{}
	for _, c := range clauses {
		for _, m := range c.Mods {
			for _, tg := range ctx.modTargets(m) {
				if tg.whole {
					whole[tg.comp] = true
				} else {
					allowed[tg.comp] = append(allowed[tg.comp], tg.ref)
				}
			}
		}
	}
	li.frameAllowed, li.frameWhole, li.framePre = allowed, whole, base
	baseNext := vc.next(base)
	pos := vc.loopPos(li)
	for _, c := range comps {
		s, ok := vc.compSort[c]
		if !ok || c == compNext || whole[c] || strings.HasPrefix(c, "R.") || strings.HasPrefix(c, "I.") || strings.HasPrefix(c, "L.") {
			continue
		}
		cur := vc.cur.comps[c]
		old := vc.comp(base, c, s)
		single := !strings.HasPrefix(s, "(Array Int ")
		conds := []Term{app("<", "0", rootOf("r")), app("<", rootOf("r"), baseNext)}
		for _, a := range allowed[c] {
			conds = append(conds, not(eq("r", a)))
		}
		if !explicit {
			// base case: the state on loop entry respects the frame
			at := vc.comp(pre, c, s)
			if at != old {
				if single {
					vc.oblige("loopframe-init", fmt.Sprintf("%d.%s", li.ordinal, c), eq(at, old), pos)
				} else {
					vc.oblige("loopframe-init", fmt.Sprintf("%d.%s", li.ordinal, c), fmt.Sprintf("(forall ((r Int)) %s)", implies(and(conds...), eq(app("select", at, "r"), app("select", old, "r")))), pos)
				}
			}
		}
		if single {
			vc.assume(eq(cur, old))
			continue
		}
		vc.assume(fmt.Sprintf("(forall ((r Int)) (! %s :pattern ((select %s r))))", implies(and(conds...), eq(app("select", cur, "r"), app("select", old, "r"))), cur))
	}
}

// ---- inlining of module functions that have no contract --------------------------------------------
//
// A helper without a contract (for instance one extracted by a refactoring) is verified as part of
// each caller under contract: its body is translated in place, on the caller's state and path. Only
// non-recursive functions without defer, go or closures are inlined, to a depth of 3; anything else is
// outside the subset (the caller's obligations are then undecided and reported as #binding). Loops of an
// inlined callee have no invariants: everything they write is havoced at their head.

type inlineFrame struct {
	fn       *ssa.Function
	prefix   string
	retReach []Term
	retState []*State
	retVals  [][]Term
}

func (vc *VC) inlinable(fn *ssa.Function) string {
	if len(fn.Blocks) == 0 {
		return "no body"
	}
	if fn.Recover != nil {
		return "defer / recover"
	}
	if len(vc.inl) >= 3 {
		return "inlining depth exceeded"
	}
	if fn == vc.fn {
		return "recursive"
	}
	for _, f := range vc.inl {
		if f.fn == fn {
			return "recursive"
		}
	}
	for _, b := range fn.Blocks {
		for _, in := range b.Instrs {
			switch in.(type) {
			case *ssa.Defer, *ssa.Go, *ssa.MakeClosure:
				return "defer, go or a closure in its body"
			}
		}
	}
	return ""
}

func (vc *VC) inlineCall(x *ssa.Call, fn *ssa.Function, args []Term) []Term {
	type saved struct {
		fn        *ssa.Function
		reach     map[*ssa.BasicBlock]Term
		exit      map[*ssa.BasicBlock]*State
		edgeCond  map[[2]int]Term
		curBlock  *ssa.BasicBlock
		reachable map[[2]int]bool
		safeSeen  map[string][]*ssa.BasicBlock
		callCount map[string]int
		counters  map[string]int
		loops     []*loopInfo
		loopAt    map[*ssa.BasicBlock]*loopInfo
		curReach  Term
	}
	sv := saved{vc.fn, vc.reach, vc.exit, vc.edgeCond, vc.curBlock, vc.reachable, vc.safeSeen, vc.callCount, vc.counters, vc.loops, vc.loopAt, vc.curReach}
	if len(vc.inl) == 0 {
		vc.inlBlock = vc.curBlock
	}
	k := sv.callCount["inline:"+fn.Name()]
	sv.callCount["inline:"+fn.Name()]++
	prefix := fmt.Sprintf("in %s#%d:", fn.Name(), k)
	if len(vc.inl) > 0 {
		prefix = vc.inl[len(vc.inl)-1].prefix + prefix
	}
	fr := &inlineFrame{fn: fn, prefix: prefix}
	vc.inl = append(vc.inl, fr)
	vc.assumes["the body of "+funcKey(fn)+" (no contract) is verified inlined into its callers"] = true
	vc.fn = fn
	vc.reach = map[*ssa.BasicBlock]Term{}
	vc.exit = map[*ssa.BasicBlock]*State{}
	vc.edgeCond = map[[2]int]Term{}
	vc.safeSeen = nil
	vc.callCount = map[string]int{}
	vc.counters = map[string]int{}
	vc.loops = nil
	vc.loopAt = map[*ssa.BasicBlock]*loopInfo{}
	for i, p := range fn.Params {
		vc.vals[p] = args[i]
	}
	// loops of an inlined callee carry no annotations: what they write is havoced at the loop head (sound; the
	// caller's obligations that depend on what the loop computes are then undecided and fail by name)
	vc.findLoops()
	vc.computeReachability()
	for _, b := range vc.topoOrder() {
		vc.block(b)
	}
	vc.inl = vc.inl[:len(vc.inl)-1]
	vc.fn, vc.reach, vc.exit, vc.edgeCond, vc.curBlock, vc.reachable, vc.safeSeen, vc.callCount, vc.counters, vc.loops, vc.loopAt, vc.curReach =
		sv.fn, sv.reach, sv.exit, sv.edgeCond, sv.curBlock, sv.reachable, sv.safeSeen, sv.callCount, sv.counters, sv.loops, sv.loopAt, sv.curReach
	if len(fr.retReach) == 0 {
		panic(unsupported("call to " + funcKey(fn) + ", which has no contract and never returns"))
	}
	// the callee returns on exactly one of its return paths (a path that panics carries a safe:panic obligation)
	var edges []Term
	for _, r := range fr.retReach {
		edges = append(edges, vc.define("inl.ret", sBool, r))
	}
	if len(edges) == 1 {
		vc.cur = fr.retState[0].clone()
		return fr.retVals[0]
	}
	vc.cur = vc.mergeStates(edges, fr.retState)
	res := fn.Signature.Results()
	out := make([]Term, res.Len())
	for i := range out {
		var ts []Term
		for _, rv := range fr.retVals {
			ts = append(ts, rv[i])
		}
		out[i] = vc.mergeTerms("inl."+fn.Name()+".r", vc.reg.sortOf(res.At(i).Type()), edges, ts)
	}
	return out
}
