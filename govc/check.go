package main

import (
	"encoding/json"
	"flag"
	"fmt"
	"os"
	"path/filepath"
	"sort"
	"strconv"
	"strings"
	"time"
)

// Prop is the per-property configuration in /verif/props/<id>.json.
type Prop struct {
	ID          string   `json:"id"`
	Level       string   `json:"level"`
	Functions   []string `json:"functions"`    // functions under contract whose obligations are claimed
	Exclude     []string `json:"exclude"`      // obligation-name substrings that belong to another property
	Only        []string `json:"only"`         // if set: per function "key#substring" filters (claimed subset)
	MinObl      int      `json:"min_obligations"`
	Assumptions []string `json:"assumptions"`
	Explanation string   `json:"explanation"`
	Bounded     []string `json:"bounded"` // ids of bounded stand-ins run with this property
	Effects     *EffectCfg `json:"effects,omitempty"`
	Termination bool       `json:"require_termination,omitempty"` // every loop has a discharged variant or ranges over a finite collection; no static recursion
}

type Finding struct {
	Property   string `json:"property"`
	ID         string `json:"id"`
	Status     string `json:"status"` // open | fixed
	Obligation string `json:"obligation"` // prefix of the obligation name
	What       string `json:"what"`
	Witness    string `json:"witness"`
	Commit     string `json:"commit,omitempty"`
	Carveout   string `json:"carveout,omitempty"`
}

type evidence struct {
	PropertyID  string         `json:"property_id"`
	Tier        string         `json:"tier"`
	Seed        int            `json:"seed"`
	Level       string         `json:"level"`
	Coverage    map[string]any `json:"coverage"`
	Assumptions []string       `json:"assumptions"`
	WallS       float64        `json:"wall_s"`
	Violations  int            `json:"violations"`
}

func cmdCheck(args []string) {
	fs := flag.NewFlagSet("check", flag.ExitOnError)
	repo := fs.String("repo", "/repo", "")
	root := fs.String("root", "/verif", "")
	tier := fs.String("tier", "quick", "")
	mutant := fs.String("mutant", "", "")
	noEvidence := fs.Bool("no-evidence", false, "")
	fs.Parse(args)
	if fs.NArg() < 1 {
		fmt.Fprintln(os.Stderr, "usage: govc check [flags] <property id>")
		os.Exit(2)
	}
	id := fs.Arg(0)
	if t := os.Getenv("VERIF_TIER"); t != "" && *tier == "" {
		*tier = t
	}
	seed := 0
	if s := os.Getenv("VERIF_SEED"); s != "" {
		seed, _ = strconv.Atoi(s)
	}
	code := runCheck(*repo, *root, id, *tier, seed, *mutant, !*noEvidence)
	os.Exit(code)
}

func loadProp(root, id string) (*Prop, error) {
	data, err := os.ReadFile(filepath.Join(root, "props", id+".json"))
	if err != nil {
		return nil, err
	}
	var p Prop
	if err := json.Unmarshal(data, &p); err != nil {
		return nil, fmt.Errorf("props/%s.json: %v", id, err)
	}
	return &p, nil
}

func loadFindings(root string) ([]Finding, error) {
	data, err := os.ReadFile(filepath.Join(root, "known_findings.json"))
	if err != nil {
		if os.IsNotExist(err) {
			return nil, nil
		}
		return nil, err
	}
	var fsx struct {
		Findings []Finding `json:"findings"`
	}
	if err := json.Unmarshal(data, &fsx); err != nil {
		return nil, err
	}
	return fsx.Findings, nil
}

func claimed(p *Prop, o *Obligation) bool {
	if only := os.Getenv("GOVC_ONLY_OBLIGATION"); only != "" && o.Class != "cover" && o.Name != only {
		return false
	}
	for _, e := range p.Exclude {
		if strings.Contains(o.Name, e) {
			return false
		}
	}
	if len(p.Only) > 0 {
		if o.Class == "cover" {
			return true
		}
		hasRule := false
		for _, on := range p.Only {
			k := strings.SplitN(on, "#", 2)
			if k[0] != o.Func {
				continue
			}
			hasRule = true
			if len(k) == 1 || strings.Contains(o.Name, "#"+k[1]) {
				return true
			}
		}
		return !hasRule
	}
	return true
}

func runCheck(repo, root, id, tier string, seed int, mutant string, writeEvidence bool) int {
	start := time.Now()
	prop, err := loadProp(root, id)
	if err != nil {
		fmt.Fprintln(os.Stderr, "internal error:", err)
		return 2
	}
	findings, err := loadFindings(root)
	if err != nil {
		fmt.Fprintln(os.Stderr, "internal error:", err)
		return 2
	}
	var overlay map[string][]byte
	if mutant != "" {
		overlay, err = overlayFromPatch(repo, mutant)
		if err != nil {
			fmt.Fprintln(os.Stderr, "internal error:", err)
			return 2
		}
	}
	env, err := loadEnv(repo, filepath.Join(root, "spec"), overlay)
	if err != nil {
		fmt.Fprintln(os.Stderr, "internal error: cannot load", repo, ":", err)
		return 2
	}
	fmt.Printf("[govc] loaded %d packages from %s (tag verif) in %.1f s; %d functions under contract for %s\n",
		len(env.modulePackages()), repo, time.Since(start).Seconds(), len(prop.Functions), id)
	scratch, _ := os.MkdirTemp("", "govc-"+id)
	defer os.RemoveAll(scratch)
	replayDir := filepath.Join(root, "replays", id)
	os.RemoveAll(replayDir)

	type violation struct {
		name   string
		replay string
		note   string
	}
	var violations []violation
	var known []string
	internal := 0
	var vcs, findingVCs []*VC
	writeReplay := func(name string, body map[string]any) string {
		os.MkdirAll(replayDir, 0o755)
		path := filepath.Join(replayDir, sanitizeFile(name)+".json")
		body["property"] = id
		body["obligation"] = name
		data, _ := json.MarshalIndent(body, "", " ")
		os.WriteFile(path, data, 0o644)
		return path
	}
	for _, k := range prop.Functions {
		if strings.HasPrefix(k, "lemma:") {
			vc := lemmaByKey(env, k)
			if vc == nil || vc.generateLemma() != nil {
				name := k + "#binding"
				path := writeReplay(name, map[string]any{"reason": "lemma " + k + " is missing or cannot be translated"})
				violations = append(violations, violation{name, path, "no-failing-input-found"})
				continue
			}
			vcs = append(vcs, vc)
			continue
		}
		d := env.funcC[k]
		fn := env.findFunction(k)
		if d == nil || fn == nil {
			name := k + "#binding"
			what := "the contract of " + k + " binds to no function in the current tree (the function this property depends on is missing, renamed or has no contract)"
			path := writeReplay(name, map[string]any{"reason": what})
			violations = append(violations, violation{name, path, "no-failing-input-found"})
			continue
		}
		vc := newVC(env, fn, d)
		vc.carved = hasClause(d, "carveout")
		if vc.carved {
			// the uncarved function is verified too, for the obligations recorded as known findings:
			// they are expected to fail (canary), while the carved-out obligations must discharge
			vu := newVC(env, fn, d)
			if err := vu.generate(); err == nil {
				var keep []*Obligation
				for _, o := range vu.obls {
					for _, f := range findings {
						if f.Property == id && f.Status == "open" && strings.HasPrefix(o.Name, f.Obligation) && claimed(prop, o) {
							o.Expect = "finding:" + f.ID
							keep = append(keep, o)
							break
						}
					}
				}
				vu.obls = keep
				findingVCs = append(findingVCs, vu)
			}
		}
		if err := vc.generate(); err != nil {
			name := k + "#binding"
			path := writeReplay(name, map[string]any{"reason": "verification conditions cannot be generated for the current body of " + k + ": " + err.Error()})
			violations = append(violations, violation{name, path, "no-failing-input-found"})
			continue
		}
		var keep []*Obligation
		for _, o := range vc.obls {
			if claimed(prop, o) {
				keep = append(keep, o)
			}
		}
		vc.obls = keep
		vcs = append(vcs, vc)
	}
	timeout := 15
	all := false
	if tier == "thorough" {
		timeout = 60
		all = true
	}
	cacheDir := filepath.Join(root, ".cache")
	if os.Getenv("GOVC_NO_CACHE") != "" || tier == "thorough" {
		cacheDir = ""
	}
	if cacheDir != "" {
		// the cache is an optimisation only: it is emptied when it has grown large
		if ents, err := os.ReadDir(cacheDir); err == nil && len(ents) > 250000 {
			os.RemoveAll(cacheDir)
		}
	}
	discharge(append(append([]*VC{}, vcs...), findingVCs...), runOpts{scratch: scratch, timeoutS: timeout, all: all, workers: 8, cacheDir: cacheDir})
	stillFails := map[string]bool{}
	for _, vu := range findingVCs {
		for _, o := range vu.obls {
			fid := strings.TrimPrefix(o.Expect, "finding:")
			if o.Result != nil && o.Result.Answer != "unsat" {
				stillFails[fid] = true
			}
		}
	}
	for _, f := range findings {
		if f.Property == id && f.Status == "open" && stillFails[f.ID] {
			known = append(known, fmt.Sprintf("KNOWN-FINDING: property=%s %s %s %s", id, f.ID, f.Obligation, f.What))
		}
	}

	total, discharged, covers, fromCache := 0, 0, 0, 0
	byBackend := map[string]int{}
	solverTime := 0.0
	type slowT struct {
		Name string  `json:"obligation"`
		S    float64 `json:"seconds"`
		B    string  `json:"backend"`
	}
	var slow []slowT
	var samples []map[string]any
	usedExternal := map[string]bool{}
	defaults := map[string]bool{}
	assumes := map[string]bool{}
	arith := map[string]string{}
	for _, vc := range vcs {
		for k := range vc.externals {
			usedExternal[k] = true
		}
		for k := range vc.defaults {
			defaults[k] = true
		}
		for k := range vc.assumes {
			assumes[k] = true
		}
		arith[vc.key] = vc.arith + "/float " + vc.floatMode
		for _, o := range vc.obls {
			if o.Class == "cover" {
				covers++
				if !o.ok() {
					fmt.Printf("internal error: vacuity check %s failed (answer %s): the contract of %s is contradictory or no return is reachable\n", o.Name, o.Result.Answer, vc.key)
					internal++
				}
				continue
			}
			total++
			r := o.Result
			if r.Answer == "error" {
				fmt.Printf("internal error: every back end rejected the query of %s: %s\n", o.Name, truncate(r.Output, 600))
				internal++
				continue
			}
			if r.Answer == "disagree" {
				fmt.Printf("internal error: back ends disagree on %s: %v\n", o.Name, r.All)
				internal++
				continue
			}
			if o.ok() {
				discharged++
				byBackend[r.Backend]++
				if r.Cached {
					fromCache++
				} else {
					solverTime += r.TimeS
				}
				slow = append(slow, slowT{o.Name, r.TimeS, r.Backend})
				if len(samples) < 12 && (o.Class == "ensures" || o.Class == "inv-pres" || o.Class == "pre" || len(samples) < 4) {
					samples = append(samples, map[string]any{"obligation": o.Name, "at": o.Pos, "verdict": "discharged", "backend": r.Backend, "seconds": r.TimeS})
				}
				continue
			}
			// failed: known finding?
			matched := false
			for _, f := range findings {
				if f.Property == id && f.Status == "open" && strings.HasPrefix(o.Name, f.Obligation) && !vc.carved {
					matched = true
					line := fmt.Sprintf("KNOWN-FINDING: property=%s %s %s %s", id, f.ID, f.Obligation, f.What)
					dup := false
					for _, k := range known {
						if k == line {
							dup = true
						}
					}
					if !dup {
						known = append(known, line)
					}
				}
			}
			if matched {
				samples = append(samples, map[string]any{"obligation": o.Name, "at": o.Pos, "verdict": "fails as recorded (known finding)"})
				continue
			}
			body := map[string]any{"function": o.Func, "at": o.Pos, "class": o.Class, "answer": r.Answer, "backends": r.All,
				"solver_output": truncate(r.Output, 6000), "goal": truncate(o.Goal, 4000)}
			note := "no-failing-input-found"
			if rp := tryReplay(env, repo, root, vcOf(vcs, o), o, scratch, body); rp {
				note = ""
			}
			path := writeReplay(o.Name, body)
			violations = append(violations, violation{o.Name, path, note})
		}
	}
	sort.Slice(slow, func(i, j int) bool { return slow[i].S > slow[j].S })
	if len(slow) > 5 {
		slow = slow[:5]
	}
	// known findings recorded as open must still fail; fixed ones must not come back
	for _, f := range findings {
		if f.Property != id || f.Status != "open" {
			continue
		}
		still := false
		for _, k := range known {
			if strings.Contains(k, " "+f.ID+" ") {
				still = true
			}
		}
		if !still && f.Obligation != "" && !strings.HasPrefix(f.Obligation, "bounded:") {
			fmt.Printf("note: known finding %s (%s) no longer fails; it can be recorded as fixed\n", f.ID, f.Obligation)
		}
	}
	// termination: each loop of the listed functions carries a variant (discharged above as #dec) or is a
	// range loop over a slice, string or map; the listed functions do not call each other recursively
	var termInfo map[string]any
	if prop.Termination {
		nLoops, nRange := 0, 0
		for _, tv := range terminationVerdicts(env, vcs, &nLoops, &nRange) {
			total++
			if tv.ok {
				discharged++
				continue
			}
			path := writeReplay(tv.name, map[string]any{"reason": tv.why, "at": tv.pos})
			violations = append(violations, violation{tv.name, path, "no-failing-input-found"})
		}
		termInfo = map[string]any{"loops": nLoops, "range_loops": nRange, "loops_with_discharged_variant": nLoops - nRange}
	}
	// effects pass (module-level frame conditions)
	var effectInfo map[string]any
	if prop.Effects != nil {
		evs, info := runEffects(env, prop.Effects)
		effectInfo = info
		for _, ev := range evs {
			total++
			if ev.ok {
				discharged++
				continue
			}
			path := writeReplay(ev.name, map[string]any{"reason": ev.why, "at": ev.pos})
			violations = append(violations, violation{ev.name, path, "no-failing-input-found"})
		}
	}
	// bounded stand-ins
	var boundedInfo []map[string]any
	for _, b := range prop.Bounded {
		info, viol := runBounded(repo, root, b, id, tier, seed, overlay, findings, &known)
		boundedInfo = append(boundedInfo, info)
		for _, v := range viol {
			path := writeReplay("bounded:"+b+":"+v.name, v.body)
			violations = append(violations, violation{"bounded:" + b + ":" + v.name, path, ""})
		}
	}
	if total < prop.MinObl && os.Getenv("GOVC_ONLY_OBLIGATION") == "" {
		fmt.Printf("internal error: only %d obligations were generated for %s, expected at least %d\n", total, id, prop.MinObl)
		internal++
	}
	wall := time.Since(start).Seconds()
	fmt.Printf("[govc] %s: %d obligations, %d discharged %v, %d vacuity covers, %d violations, %d known findings; %.1f s\n",
		id, total, discharged, byBackend, covers, len(violations), len(known), wall)
	for _, k := range known {
		fmt.Println(k)
	}
	for _, v := range violations {
		line := fmt.Sprintf("VIOLATION property=%s replay=%s", id, v.replay)
		if v.note != "" {
			line += " " + v.note
		}
		fmt.Println(line)
	}
	if writeEvidence {
		var fns []string
		for _, vc := range vcs {
			fns = append(fns, vc.key)
		}
		cov := map[string]any{
			"obligations": total, "discharged": discharged,
			"checker_cmd":              fmt.Sprintf("./bin/check %s --tier %s", id, tier),
			"trusted_base":             trustedBase(usedExternal, defaults),
			"functions_under_contract": fns,
			"by_backend":               byBackend,
			"solver_time_s":            solverTime,
			"discharged_from_query_cache": fromCache,
			"slowest":                  slow,
			"vacuity":                  map[string]any{"cover_checks": covers, "all_held": internal == 0},
			"external_contracts_used":  keys(usedExternal),
			"default_external_calls":   keys(defaults),
			"modes":                    arith,
			"known_findings":           known,
			"samples":                  samples,
			"explanation":              prop.Explanation,
			"contract_files":           env.contractFiles,
		}
		if effectInfo != nil {
			cov["effects"] = effectInfo
		}
		if termInfo != nil {
			cov["termination"] = termInfo
		}
		if boundedInfo != nil {
			cov["bounded_standins"] = boundedInfo
		}
		if len(samples) == 0 {
			cov["samples"] = []any{"(no obligation sampled)"}
		}
		as := append([]string{}, prop.Assumptions...)
		as = append(as, keys(assumes)...)
		ev := evidence{PropertyID: id, Tier: tier, Seed: seed, Level: prop.Level, Coverage: cov, Assumptions: as, WallS: wall, Violations: len(violations)}
		data, _ := json.MarshalIndent(ev, "", " ")
		os.MkdirAll(filepath.Join(root, "evidence"), 0o755)
		if err := os.WriteFile(filepath.Join(root, "evidence", id+".json"), data, 0o644); err != nil {
			fmt.Fprintln(os.Stderr, "internal error:", err)
			return 2
		}
	}
	if len(violations) > 0 {
		return 1
	}
	if internal > 0 {
		return 2
	}
	return 0
}

func vcOf(vcs []*VC, o *Obligation) *VC {
	for _, vc := range vcs {
		for _, x := range vc.obls {
			if x == o {
				return vc
			}
		}
	}
	return nil
}

func keys(m map[string]bool) []string {
	out := []string{}
	for k := range m {
		out = append(out, k)
	}
	sort.Strings(out)
	return out
}

func trustedBase(ext, dflt map[string]bool) []string {
	tb := []string{
		"go/packages + go/types + go/ssa (golang.org/x/tools v0.29.0, NaiveForm) as the front end",
		"govc's translation from SSA and contracts to SMT-LIB (DESIGN.md 2.2 lists what it abstracts)",
		"z3 4.8.12, z3 5.1.0, cvc5 1.0 (raced; all run to completion and compared in the thorough tier)",
		"Go's memory safety; allocation modelled as a monotone counter",
		"the sequence and truncated-division axioms of DESIGN.md 3.3",
	}
	for _, k := range keys(ext) {
		tb = append(tb, "assumed external contract: "+k)
	}
	for _, k := range keys(dflt) {
		tb = append(tb, "default external contract (arbitrary result, modifies no ysgo state, does not panic): "+k)
	}
	return tb
}
