package main

import (
	"fmt"
	"go/token"
	"go/types"
	"sort"
	"strings"

	"golang.org/x/tools/go/ssa"
)

// EffectCfg configures the module-level effect pass (DESIGN 2.8): frame conditions over all code
// reachable from the entry points, checked function by function on the SSA of the real code.
type EffectCfg struct {
	Entries          []string            `json:"entries"`            // function keys
	ForbidCalls      []string            `json:"forbid_calls"`       // external functions (full names or "pkg." prefixes) with effects Clock / GlobalRand / Env
	GuardedCalls     map[string][]string `json:"guarded_calls"`      // function key -> external callees allowed there because a discharged assert guards them
	AllowMapRange    []string            `json:"allow_map_range"`    // functions whose map-range loops are order-insensitive (verified functional postcondition or justified)
	AllowGlobalWrite []string            `json:"allow_global_write"` // functions that may write package-level state (initialisers)
	AllowSpawn       []string            `json:"allow_spawn"`        // functions that may start goroutines
	AllowBlocking    []string            `json:"allow_blocking"`     // functions that may block (goroutine bodies)
	CheckBlocking    bool                `json:"check_blocking"`
	CheckGlobals     bool                `json:"check_globals"`
	CheckMapOrder    bool                `json:"check_map_order"`
	CheckSpawn       bool                `json:"check_spawn"`
	IgnorePackages   []string            `json:"ignore_packages"` // module packages not descended into (assumed), e.g. the generated parser
}

type effectVerdict struct {
	name string
	ok   bool
	why  string
	pos  string
}

func inList(l []string, s string) bool {
	for _, x := range l {
		if x == s {
			return true
		}
	}
	return false
}

func isModuleFn(f *ssa.Function) bool {
	for f.Parent() != nil {
		f = f.Parent()
	}
	if f.Origin() != nil {
		f = f.Origin()
	}
	return f.Pkg != nil && strings.HasPrefix(f.Pkg.Pkg.Path(), modulePath)
}

func runEffects(env *Env, cfg *EffectCfg) ([]effectVerdict, map[string]any) {
	var out []effectVerdict
	reach := map[*ssa.Function]bool{}
	var work []*ssa.Function
	add := func(f *ssa.Function) {
		if f == nil {
			return
		}
		if f.Origin() != nil {
			f = f.Origin()
		}
		if !isModuleFn(f) || reach[f] || len(f.Blocks) == 0 {
			return
		}
		top := f
		for top.Parent() != nil {
			top = top.Parent()
		}
		for _, ig := range cfg.IgnorePackages {
			if top.Pkg != nil && top.Pkg.Pkg.Name() == ig {
				return
			}
		}
		reach[f] = true
		work = append(work, f)
	}
	for _, k := range cfg.Entries {
		f := env.findFunction(k)
		if f == nil {
			out = append(out, effectVerdict{name: "effects#binding:" + k, ok: false, why: "entry point " + k + " does not exist"})
			continue
		}
		add(f)
	}
	// module named types, for resolving interface calls (class hierarchy analysis)
	var named []types.Type
	for _, sp := range env.modulePackages() {
		for _, m := range sp.Members {
			if t, ok := m.(*ssa.Type); ok {
				named = append(named, t.Type(), types.NewPointer(t.Type()))
			}
		}
	}
	externalCalls := map[string]bool{}
	nInstr := 0
	for len(work) > 0 {
		f := work[len(work)-1]
		work = work[:len(work)-1]
		key := funcKey(f)
		for _, b := range f.Blocks {
			for _, in := range b.Instrs {
				nInstr++
				// function values used as operands are callable later
				for _, op := range in.Operands(nil) {
					if op == nil || *op == nil {
						continue
					}
					if fn, ok := (*op).(*ssa.Function); ok {
						add(fn)
					}
				}
				pos := env.position(in.Pos())
				switch x := in.(type) {
				case *ssa.MakeClosure:
					add(x.Fn.(*ssa.Function))
				case *ssa.Go:
					if cfg.CheckSpawn {
						out = append(out, effectVerdict{name: fmt.Sprintf("%s#effect:Spawn@%s", key, pos), ok: inList(cfg.AllowSpawn, key), why: "starts a goroutine", pos: pos})
					}
					effCall(env, cfg, x.Common(), key, pos, named, add, &out, externalCalls)
				case *ssa.Call:
					effCall(env, cfg, x.Common(), key, pos, named, add, &out, externalCalls)
				case *ssa.Defer:
					effCall(env, cfg, x.Common(), key, pos, named, add, &out, externalCalls)
				case *ssa.Store:
					if cfg.CheckGlobals {
						if g := rootGlobal(x.Addr); g != nil && isModuleGlobal(g) {
							ok := inList(cfg.AllowGlobalWrite, key) || f.Name() == "init" || strings.HasPrefix(f.Name(), "init#")
							out = append(out, effectVerdict{name: fmt.Sprintf("%s#effect:global-write@%s", key, pos), ok: ok, why: "writes package-level variable " + g.Name(), pos: pos})
						}
					}
				case *ssa.MapUpdate:
					if cfg.CheckGlobals {
						if g := loadedFromGlobal(x.Map); g != nil && isModuleGlobal(g) {
							ok := inList(cfg.AllowGlobalWrite, key) || f.Name() == "init"
							out = append(out, effectVerdict{name: fmt.Sprintf("%s#effect:global-write@%s", key, pos), ok: ok, why: "updates a map held in package-level variable " + g.Name(), pos: pos})
						}
					}
				case *ssa.Range:
					if cfg.CheckMapOrder {
						if _, isMap := x.X.Type().Underlying().(*types.Map); isMap {
							out = append(out, effectVerdict{name: fmt.Sprintf("%s#effect:MapOrder@%s", key, pos), ok: inList(cfg.AllowMapRange, key), why: "iterates over a map (iteration order is unspecified)", pos: pos})
						}
					}
				case *ssa.Select:
					if cfg.CheckBlocking {
						out = append(out, effectVerdict{name: fmt.Sprintf("%s#effect:MayBlock@%s", key, pos), ok: !x.Blocking || inList(cfg.AllowBlocking, key), why: "blocking select", pos: pos})
					}
				case *ssa.UnOp:
					if cfg.CheckBlocking && x.Op == token.ARROW {
						out = append(out, effectVerdict{name: fmt.Sprintf("%s#effect:MayBlock@%s", key, pos), ok: inList(cfg.AllowBlocking, key), why: "blocking channel receive", pos: pos})
					}
				case *ssa.Send:
					if cfg.CheckBlocking {
						// a send is non-blocking only if the function's VC proves count < cap (obligation effect:send-never-blocks)
						d := env.funcC[key]
						ok := d != nil || inList(cfg.AllowBlocking, key)
						out = append(out, effectVerdict{name: fmt.Sprintf("%s#effect:MayBlock@%s", key, pos), ok: ok, why: "channel send in a function without a contract (no send-never-blocks obligation)", pos: pos})
					}
				}
			}
		}
	}
	var fns []string
	for f := range reach {
		fns = append(fns, funcKey(f))
	}
	sort.Strings(fns)
	okN := 0
	for _, v := range out {
		if v.ok {
			okN++
		}
	}
	info := map[string]any{"reachable_functions": len(fns), "functions": fns, "instructions_scanned": nInstr,
		"effect_sites_checked": len(out), "effect_sites_ok": okN, "external_callees_seen": keys(externalCalls)}
	return out, info
}

func effCall(env *Env, cfg *EffectCfg, c *ssa.CallCommon, key, pos string, named []types.Type, add func(*ssa.Function), out *[]effectVerdict, ext map[string]bool) {
	if c.IsInvoke() {
		// class hierarchy analysis restricted to module types
		iface, _ := c.Value.Type().Underlying().(*types.Interface)
		if iface == nil {
			return
		}
		for _, t := range named {
			if types.Implements(t, iface) {
				ms := env.prog.MethodSets.MethodSet(t)
				if sel := ms.Lookup(c.Method.Pkg(), c.Method.Name()); sel != nil {
					add(env.prog.MethodValue(sel))
				}
			}
		}
		return
	}
	var fn *ssa.Function
	switch v := c.Value.(type) {
	case *ssa.Function:
		fn = v
	case *ssa.MakeClosure:
		fn = v.Fn.(*ssa.Function)
	}
	if fn == nil {
		return // function value: its possible targets were added when their address was taken
	}
	if isModuleFn(fn) {
		add(fn)
		return
	}
	name := extName(fn)
	ext[name] = true
	for _, fb := range cfg.ForbidCalls {
		if name == fb || (strings.HasSuffix(fb, ".") && strings.HasPrefix(name, fb) && !strings.HasPrefix(name, "(")) {
			guarded := inList(cfg.GuardedCalls[key], name)
			why := "calls " + name + " (effect outside the function's declared set)"
			if guarded {
				// the guard must exist as an assert clause anchored at this call in the function's contract
				d := env.funcC[key]
				found := false
				if d != nil {
					for _, cl := range d.Clauses {
						if cl.Kind == "assert" && calleeMatches(cl.Callee, name) {
							found = true
						}
					}
				}
				guarded = found
				why = "calls " + name + " under a guard that is an obligation of " + key
			}
			*out = append(*out, effectVerdict{name: fmt.Sprintf("%s#effect:%s@%s", key, name, pos), ok: guarded, why: why, pos: pos})
		}
	}
}

func rootGlobal(v ssa.Value) *ssa.Global {
	for {
		switch x := v.(type) {
		case *ssa.Global:
			return x
		case *ssa.FieldAddr:
			v = x.X
		case *ssa.IndexAddr:
			v = x.X
		default:
			return nil
		}
	}
}

func loadedFromGlobal(v ssa.Value) *ssa.Global {
	if u, ok := v.(*ssa.UnOp); ok && u.Op == token.MUL {
		return rootGlobal(u.X)
	}
	return nil
}

func isModuleGlobal(g *ssa.Global) bool {
	return g.Pkg != nil && strings.HasPrefix(g.Pkg.Pkg.Path(), modulePath) && g.Name() != "init$guard"
}
