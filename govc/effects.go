package main

import (
	"fmt"
	"go/token"
	"go/types"
	"sort"
	"strings"

	"golang.org/x/tools/go/ssa"
)

// EffectCfg configures the module-level effect pass (DESIGN 2.8): frame conditions over all code
// reachable from the entry points, checked function by function on the SSA of the real code.
type EffectCfg struct {
	Entries          []string            `json:"entries"`            // function keys
	ForbidCalls      []string            `json:"forbid_calls"`       // external functions (full names or "pkg." prefixes) with effects Clock / GlobalRand / Env
	GuardedCalls     map[string][]string `json:"guarded_calls"`      // function key -> external callees allowed there because a discharged assert guards them
	AllowMapRange    []string            `json:"allow_map_range"`    // functions whose map-range loops are order-insensitive (verified functional postcondition or justified)
	AllowGlobalWrite []string            `json:"allow_global_write"` // functions that may write package-level state (initialisers)
	AllowSpawn       []string            `json:"allow_spawn"`        // functions that may start goroutines
	AllowBlocking    []string            `json:"allow_blocking"`     // functions that may block (goroutine bodies)
	CheckBlocking    bool                `json:"check_blocking"`
	CheckGlobals     bool                `json:"check_globals"`
	CheckMapOrder    bool                `json:"check_map_order"`
	CheckSpawn       bool                `json:"check_spawn"`
	IgnorePackages   []string            `json:"ignore_packages"` // module packages not descended into (assumed), e.g. the generated parser
	CheckShared      bool                `json:"check_shared"`    // values reached through package-level variables are only read (no store, append, update, escape, mutating call)
	SharedPureCalls  []string            `json:"shared_pure_calls"` // external functions (full names or prefixes ending in ".") that only read their arguments and are safe for concurrent use
}

type effectVerdict struct {
	name string
	ok   bool
	why  string
	pos  string
}

func inList(l []string, s string) bool {
	for _, x := range l {
		if x == s {
			return true
		}
	}
	return false
}

func isModuleFn(f *ssa.Function) bool {
	for f.Parent() != nil {
		f = f.Parent()
	}
	if f.Origin() != nil {
		f = f.Origin()
	}
	return f.Pkg != nil && strings.HasPrefix(f.Pkg.Pkg.Path(), modulePath)
}

func runEffects(env *Env, cfg *EffectCfg) ([]effectVerdict, map[string]any) {
	var out []effectVerdict
	reach := map[*ssa.Function]bool{}
	var work []*ssa.Function
	add := func(f *ssa.Function) {
		if f == nil {
			return
		}
		if f.Origin() != nil {
			f = f.Origin()
		}
		if !isModuleFn(f) || reach[f] || len(f.Blocks) == 0 {
			return
		}
		top := f
		for top.Parent() != nil {
			top = top.Parent()
		}
		for _, ig := range cfg.IgnorePackages {
			if top.Pkg != nil && top.Pkg.Pkg.Name() == ig {
				return
			}
		}
		reach[f] = true
		work = append(work, f)
	}
	for _, k := range cfg.Entries {
		f := env.findFunction(k)
		if f == nil {
			out = append(out, effectVerdict{name: "effects#binding:" + k, ok: false, why: "entry point " + k + " does not exist"})
			continue
		}
		add(f)
	}
	// module named types, for resolving interface calls (class hierarchy analysis)
	var named []types.Type
	for _, sp := range env.modulePackages() {
		for _, m := range sp.Members {
			if t, ok := m.(*ssa.Type); ok {
				named = append(named, t.Type(), types.NewPointer(t.Type()))
			}
		}
	}
	externalCalls := map[string]bool{}
	nInstr := 0
	for len(work) > 0 {
		f := work[len(work)-1]
		work = work[:len(work)-1]
		key := funcKey(f)
		for _, b := range f.Blocks {
			for _, in := range b.Instrs {
				nInstr++
				// function values used as operands are callable later
				for _, op := range in.Operands(nil) {
					if op == nil || *op == nil {
						continue
					}
					if fn, ok := (*op).(*ssa.Function); ok {
						add(fn)
					}
				}
				pos := env.position(in.Pos())
				switch x := in.(type) {
				case *ssa.MakeClosure:
					add(x.Fn.(*ssa.Function))
				case *ssa.Go:
					if cfg.CheckSpawn {
						out = append(out, effectVerdict{name: fmt.Sprintf("%s#effect:Spawn@%s", key, pos), ok: inList(cfg.AllowSpawn, key), why: "starts a goroutine", pos: pos})
					}
					effCall(env, cfg, x.Common(), key, pos, named, add, &out, externalCalls)
				case *ssa.Call:
					effCall(env, cfg, x.Common(), key, pos, named, add, &out, externalCalls)
				case *ssa.Defer:
					effCall(env, cfg, x.Common(), key, pos, named, add, &out, externalCalls)
				case *ssa.Store:
					if cfg.CheckGlobals {
						if g := rootGlobal(x.Addr); g != nil && isModuleGlobal(g) {
							ok := inList(cfg.AllowGlobalWrite, key) || f.Name() == "init" || strings.HasPrefix(f.Name(), "init#")
							out = append(out, effectVerdict{name: fmt.Sprintf("%s#effect:global-write@%s", key, pos), ok: ok, why: "writes package-level variable " + g.Name(), pos: pos})
						}
					}
				case *ssa.MapUpdate:
					if cfg.CheckGlobals {
						if g := loadedFromGlobal(x.Map); g != nil && isModuleGlobal(g) {
							ok := inList(cfg.AllowGlobalWrite, key) || f.Name() == "init"
							out = append(out, effectVerdict{name: fmt.Sprintf("%s#effect:global-write@%s", key, pos), ok: ok, why: "updates a map held in package-level variable " + g.Name(), pos: pos})
						}
					}
				case *ssa.Range:
					if cfg.CheckMapOrder {
						if _, isMap := x.X.Type().Underlying().(*types.Map); isMap {
							out = append(out, effectVerdict{name: fmt.Sprintf("%s#effect:MapOrder@%s", key, pos), ok: inList(cfg.AllowMapRange, key), why: "iterates over a map (iteration order is unspecified)", pos: pos})
						}
					}
				case *ssa.Select:
					if cfg.CheckBlocking {
						out = append(out, effectVerdict{name: fmt.Sprintf("%s#effect:MayBlock@%s", key, pos), ok: !x.Blocking || inList(cfg.AllowBlocking, key), why: "blocking select", pos: pos})
					}
				case *ssa.UnOp:
					if cfg.CheckBlocking && x.Op == token.ARROW {
						out = append(out, effectVerdict{name: fmt.Sprintf("%s#effect:MayBlock@%s", key, pos), ok: inList(cfg.AllowBlocking, key), why: "blocking channel receive", pos: pos})
					}
				case *ssa.Send:
					if cfg.CheckBlocking {
						// a send is non-blocking only if the function's VC proves count < cap (obligation effect:send-never-blocks)
						d := env.funcC[key]
						ok := d != nil || inList(cfg.AllowBlocking, key)
						out = append(out, effectVerdict{name: fmt.Sprintf("%s#effect:MayBlock@%s", key, pos), ok: ok, why: "channel send in a function without a contract (no send-never-blocks obligation)", pos: pos})
					}
				}
			}
		}
	}
	if cfg.CheckShared {
		var fl []*ssa.Function
		for f := range reach {
			fl = append(fl, f)
		}
		sort.Slice(fl, func(i, j int) bool { return funcKey(fl[i]) < funcKey(fl[j]) })
		for _, f := range fl {
			out = append(out, sharedVerdicts(env, cfg, f)...)
		}
	}
	var fns []string
	for f := range reach {
		fns = append(fns, funcKey(f))
	}
	sort.Strings(fns)
	okN := 0
	for _, v := range out {
		if v.ok {
			okN++
		}
	}
	info := map[string]any{"reachable_functions": len(fns), "functions": fns, "instructions_scanned": nInstr,
		"effect_sites_checked": len(out), "effect_sites_ok": okN, "external_callees_seen": keys(externalCalls)}
	return out, info
}

func effCall(env *Env, cfg *EffectCfg, c *ssa.CallCommon, key, pos string, named []types.Type, add func(*ssa.Function), out *[]effectVerdict, ext map[string]bool) {
	if c.IsInvoke() {
		// class hierarchy analysis restricted to module types
		iface, _ := c.Value.Type().Underlying().(*types.Interface)
		if iface == nil {
			return
		}
		for _, t := range named {
			if types.Implements(t, iface) {
				ms := env.prog.MethodSets.MethodSet(t)
				if sel := ms.Lookup(c.Method.Pkg(), c.Method.Name()); sel != nil {
					add(env.prog.MethodValue(sel))
				}
			}
		}
		return
	}
	var fn *ssa.Function
	switch v := c.Value.(type) {
	case *ssa.Function:
		fn = v
	case *ssa.MakeClosure:
		fn = v.Fn.(*ssa.Function)
	}
	if fn == nil {
		return // function value: its possible targets were added when their address was taken
	}
	if isModuleFn(fn) {
		add(fn)
		return
	}
	name := extName(fn)
	ext[name] = true
	for _, fb := range cfg.ForbidCalls {
		if name == fb || (strings.HasSuffix(fb, ".") && strings.HasPrefix(name, fb) && !strings.HasPrefix(name, "(")) {
			guarded := inList(cfg.GuardedCalls[key], name)
			why := "calls " + name + " (effect outside the function's declared set)"
			if guarded {
				// the guard must exist as an assert clause anchored at this call in the function's contract
				d := env.funcC[key]
				found := false
				if d != nil {
					for _, cl := range d.Clauses {
						if cl.Kind == "assert" && calleeMatches(cl.Callee, name) {
							found = true
						}
					}
				}
				guarded = found
				why = "calls " + name + " under a guard that is an obligation of " + key
			}
			*out = append(*out, effectVerdict{name: fmt.Sprintf("%s#effect:%s@%s", key, name, pos), ok: guarded, why: why, pos: pos})
		}
	}
}

func rootGlobal(v ssa.Value) *ssa.Global {
	for {
		switch x := v.(type) {
		case *ssa.Global:
			return x
		case *ssa.FieldAddr:
			v = x.X
		case *ssa.IndexAddr:
			v = x.X
		default:
			return nil
		}
	}
}

func loadedFromGlobal(v ssa.Value) *ssa.Global {
	if u, ok := v.(*ssa.UnOp); ok && u.Op == token.MUL {
		return rootGlobal(u.X)
	}
	return nil
}

func isModuleGlobal(g *ssa.Global) bool {
	return g.Pkg != nil && strings.HasPrefix(g.Pkg.Pkg.Path(), modulePath) && g.Name() != "init$guard"
}

// ---- shared state reached through package-level variables -------------------------------------------
//
// Distinct runners can only share memory that is reachable from package-level variables (everything
// else a runner touches is reachable from its own fields or from its caller's arguments). sharedVerdicts
// follows, inside one function, every value loaded from a module package-level variable and requires
// that it is only read: indexing, field access, map lookup, range, len/cap, comparison, calling it (a
// function value), or passing it to an external function listed as read-only and safe for concurrent
// use. Storing through it, appending to it, updating it, sending it, returning it, storing it anywhere,
// capturing it or passing it to any other function is reported.

func refLike(t types.Type) bool {
	switch u := t.Underlying().(type) {
	case *types.Pointer, *types.Slice, *types.Map, *types.Chan, *types.Interface:
		return true
	case *types.Struct:
		for i := 0; i < u.NumFields(); i++ {
			if refLike(u.Field(i).Type()) {
				return true
			}
		}
	case *types.Array:
		return refLike(u.Elem())
	}
	return false
}

// sharedFuncValue: a function value read from a package-level variable is a reference to a closure, which may own
// mutable captured state shared by every runner that calls it - unless every function the package initialiser puts
// into that variable is capture-free (a plain function or a literal without free variables), stored directly by the
// initialiser itself (the case of the per-kind converter table).
func sharedFuncValue(t types.Type, g *ssa.Global) bool {
	if g == nil {
		return false
	}
	if _, ok := t.Underlying().(*types.Signature); !ok {
		return false
	}
	return !captureFreeGlobal(g)
}

var captureFreeMemo = map[*ssa.Global]bool{}

func captureFreeGlobal(g *ssa.Global) bool {
	if v, ok := captureFreeMemo[g]; ok {
		return v
	}
	res := false
	defer func() { captureFreeMemo[g] = res }()
	init := g.Pkg.Func("init")
	if init == nil {
		return false
	}
	plain := func(v ssa.Value) bool {
		for {
			switch x := v.(type) {
			case *ssa.ChangeType:
				v = x.X
				continue
			case *ssa.Function:
				return len(x.FreeVars) == 0
			}
			return false
		}
	}
	var stored ssa.Value
	n := 0
	for _, b := range init.Blocks {
		for _, in := range b.Instrs {
			if st, ok := in.(*ssa.Store); ok && st.Addr == ssa.Value(g) {
				stored = st.Val
				n++
			}
		}
	}
	if n != 1 {
		return false
	}
	if plain(stored) {
		res = true
		return res
	}
	mk, ok := stored.(*ssa.MakeMap)
	if !ok {
		return false
	}
	// every use of the fresh map inside the initialiser: element stores of capture-free functions and the store to g
	for _, r := range *mk.Referrers() {
		switch u := r.(type) {
		case *ssa.MapUpdate:
			if u.Map != ssa.Value(mk) || !plain(u.Value) {
				return false
			}
		case *ssa.Store:
			if u.Addr != ssa.Value(g) {
				return false
			}
		case *ssa.DebugRef:
		default:
			return false
		}
	}
	res = true
	return res
}

func sharedVerdicts(env *Env, cfg *EffectCfg, f *ssa.Function) []effectVerdict {
	var out []effectVerdict
	key := funcKey(f)
	if f.Name() == "init" || strings.HasPrefix(f.Name(), "init#") || inList(cfg.AllowGlobalWrite, key) {
		return nil
	}
	taint := map[ssa.Value]*ssa.Global{}
	src := func(v ssa.Value) *ssa.Global {
		if g, ok := v.(*ssa.Global); ok && isModuleGlobal(g) {
			return g
		}
		return taint[v]
	}
	// propagate to a fixpoint (phis)
	for changed := true; changed; {
		changed = false
		mark := func(v ssa.Value, g *ssa.Global) {
			if g != nil && taint[v] == nil {
				taint[v] = g
				changed = true
			}
		}
		for _, b := range f.Blocks {
			for _, in := range b.Instrs {
				switch x := in.(type) {
				case *ssa.UnOp:
					if x.Op == token.MUL && (refLike(x.Type()) || sharedFuncValue(x.Type(), src(x.X))) {
						mark(x, src(x.X))
					}
				case *ssa.FieldAddr:
					mark(x, src(x.X))
				case *ssa.IndexAddr:
					mark(x, src(x.X))
				case *ssa.Field:
					if refLike(x.Type()) {
						mark(x, src(x.X))
					}
				case *ssa.Index:
					if refLike(x.Type()) || sharedFuncValue(x.Type(), src(x.X)) {
						mark(x, src(x.X))
					}
				case *ssa.Lookup:
					if refLike(x.Type()) || sharedFuncValue(x.Type(), src(x.X)) {
						mark(x, src(x.X))
					}
				case *ssa.Range:
					mark(x, src(x.X))
				case *ssa.Next:
					mark(x, src(x.Iter))
				case *ssa.Slice:
					mark(x, src(x.X))
				case *ssa.ChangeType:
					mark(x, src(x.X))
				case *ssa.ChangeInterface:
					mark(x, src(x.X))
				case *ssa.Convert:
					if refLike(x.Type()) {
						mark(x, src(x.X))
					}
				case *ssa.MakeInterface:
					if refLike(x.X.Type()) {
						mark(x, src(x.X))
					}
				case *ssa.TypeAssert:
					if refLike(x.Type()) {
						mark(x, src(x.X))
					}
				case *ssa.Extract:
					if refLike(x.Type()) || sharedFuncValue(x.Type(), src(x.Tuple)) {
						mark(x, src(x.Tuple))
					}
				case *ssa.Phi:
					for _, e := range x.Edges {
						mark(x, src(e))
					}
				}
			}
		}
	}
	report := func(pos token.Pos, g *ssa.Global, what string) {
		p := env.position(pos)
		out = append(out, effectVerdict{name: fmt.Sprintf("%s#effect:shared-state:%s@%s", key, g.Name(), p), ok: false,
			why: "package-level variable " + g.Pkg.Pkg.Name() + "." + g.Name() + " (shared by all runners) " + what, pos: p})
	}
	pureCall := func(name string) bool {
		for _, pc := range cfg.SharedPureCalls {
			if name == pc || (strings.HasSuffix(pc, ".") && strings.HasPrefix(name, pc)) {
				return true
			}
		}
		return false
	}
	nReads := 0
	for _, b := range f.Blocks {
		for _, in := range b.Instrs {
			switch x := in.(type) {
			case *ssa.Store:
				if g := src(x.Addr); g != nil {
					if _, direct := x.Addr.(*ssa.Global); !direct { // direct writes are global-write verdicts
						report(x.Pos(), g, "is written through")
					}
				}
				if g := taint[x.Val]; g != nil {
					report(x.Pos(), g, "is stored into another location (escapes)")
				}
			case *ssa.MapUpdate:
				if g := taint[x.Map]; g != nil {
					report(x.Pos(), g, "is updated (map assignment)")
				}
				if g := taint[x.Value]; g != nil {
					report(x.Pos(), g, "is stored into a map (escapes)")
				}
			case *ssa.Send:
				if g := taint[x.X]; g != nil {
					report(x.Pos(), g, "is sent on a channel (escapes)")
				}
				if g := taint[x.Chan]; g != nil {
					report(x.Pos(), g, "is a channel shared by all runners")
				}
			case *ssa.Return:
				for _, r := range x.Results {
					if g := taint[r]; g != nil {
						report(x.Pos(), g, "is returned (escapes)")
					}
				}
			case *ssa.MakeClosure:
				for _, bnd := range x.Bindings {
					if g := taint[bnd]; g != nil {
						report(x.Pos(), g, "is captured by a closure (escapes)")
					}
				}
			case ssa.CallInstruction:
				c := x.Common()
				var args []ssa.Value
				name := ""
				if c.IsInvoke() {
					args = append(args, c.Value)
					name = "(" + c.Value.Type().String() + ")." + c.Method.Name()
				} else {
					switch fv := c.Value.(type) {
					case *ssa.Builtin:
						name = "builtin." + fv.Name()
					case *ssa.Function:
						if isModuleFn(fv) {
							name = "module:" + funcKey(fv)
						} else {
							name = extName(fv)
						}
					default:
						name = "func-value"
					}
				}
				args = append(args, c.Args...)
				for _, a := range args {
					g := taint[a]
					if g == nil {
						continue
					}
					nReads++
					switch {
					case name == "builtin.len" || name == "builtin.cap":
					case name == "builtin.append" || name == "builtin.copy" || name == "builtin.delete" || name == "builtin.clear" || name == "builtin.close":
						report(x.Pos(), g, "is passed to "+strings.TrimPrefix(name, "builtin.")+" (mutated)")
					case pureCall(name):
					default:
						report(x.Pos(), g, "is passed to "+name+", which is not listed as read-only and safe for concurrent use")
					}
				}
			}
		}
	}
	if len(out) == 0 && len(taint) > 0 {
		p := env.position(f.Pos())
		out = append(out, effectVerdict{name: fmt.Sprintf("%s#effect:shared-state-read-only", key), ok: true, why: "values reached through package-level variables are only read", pos: p})
	}
	return out
}
