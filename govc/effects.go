package main

// EffectCfg configures the module-level effect pass (DESIGN 2.8).
type EffectCfg struct {
	Entries []string `json:"entries"`
	Forbid  []string `json:"forbid"`
}

type effectVerdict struct {
	name string
	ok   bool
	why  string
	pos  string
}

func runEffects(env *Env, cfg *EffectCfg) ([]effectVerdict, map[string]any) {
	return nil, map[string]any{"status": "not built"}
}
