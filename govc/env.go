package main

import (
	"fmt"
	"go/token"
	"go/types"
	"os"
	"path/filepath"
	"sort"
	"strings"

	"golang.org/x/tools/go/packages"
	"golang.org/x/tools/go/ssa"
	"golang.org/x/tools/go/ssa/ssautil"
)

const modulePath = "github.com/remieven/ysgo"

// Env is everything loaded once per run: the SSA of the real code and all contracts.
type Env struct {
	overlay map[string][]byte // files replaced for this run (a mutant applied without touching the repository)
	fset     *token.FileSet
	prog     *ssa.Program
	pkgs     []*packages.Package
	spkgs    []*ssa.Package
	byName   map[string]*ssa.Package // package name -> package (module packages and imports)
	byPath   map[string]*ssa.Package
	decls    []*Decl
	funcC    map[string]*Decl   // contract by function key
	extC     map[string]*Decl   // external contracts by full name
	ifaceC   map[string]*Decl   // "pkg.Type.Method"
	ftypeC   map[string]*Decl   // "pkg.Type"
	pures    map[string][]*Decl // by name
	externs  map[string]*Decl
	dtypes   map[string]*Decl // datatypes by name
	ctors    map[string]*Decl // ctor name -> datatype
	abstract map[string]bool  // abstract sorts
	gfields  map[string]*Decl // "pkg.Type.field"
	gvars    map[string]*Decl
	axioms   []*Decl
	lemmas   []*Decl
	addrTaken map[string]bool // "typeKey.field" whose address escapes somewhere in the module
	contractFiles []string
	loadS    float64
}

func qual(p *types.Package) string {
	if p == nil {
		return ""
	}
	return p.Name()
}

func typeKey(t types.Type) string { return types.TypeString(t, qual) }

func loadEnv(repo string, specDir string, overlay map[string][]byte) (*Env, error) {
	cfg := &packages.Config{
		Mode:       packages.LoadAllSyntax,
		Dir:        repo,
		BuildFlags: []string{"-tags=verif"},
		Env:        append(os.Environ(), "GOFLAGS=-mod=mod", "GOPROXY=off", "GOSUMDB=off", "GOTOOLCHAIN=local"),
		Overlay:    overlay,
	}
	pkgs, err := packages.Load(cfg, "./...")
	if err != nil {
		return nil, err
	}
	nerr := 0
	packages.Visit(pkgs, nil, func(p *packages.Package) {
		for _, e := range p.Errors {
			if strings.HasPrefix(p.PkgPath, modulePath) {
				fmt.Fprintf(os.Stderr, "load error in %s: %v\n", p.PkgPath, e)
				nerr++
			}
		}
	})
	if nerr > 0 {
		return nil, fmt.Errorf("%d errors loading %s", nerr, repo)
	}
	prog, spkgs := ssautil.AllPackages(pkgs, ssa.NaiveForm)
	prog.Build()
	env := &Env{overlay: overlay, fset: prog.Fset, prog: prog, pkgs: pkgs, spkgs: spkgs,
		byName: map[string]*ssa.Package{}, byPath: map[string]*ssa.Package{},
		funcC: map[string]*Decl{}, extC: map[string]*Decl{}, ifaceC: map[string]*Decl{}, ftypeC: map[string]*Decl{},
		pures: map[string][]*Decl{}, externs: map[string]*Decl{}, dtypes: map[string]*Decl{}, ctors: map[string]*Decl{},
		abstract: map[string]bool{}, gfields: map[string]*Decl{}, gvars: map[string]*Decl{}, addrTaken: map[string]bool{}}
	for _, sp := range prog.AllPackages() {
		env.byPath[sp.Pkg.Path()] = sp
		if _, dup := env.byName[sp.Pkg.Name()]; !dup || strings.HasPrefix(sp.Pkg.Path(), modulePath) {
			env.byName[sp.Pkg.Name()] = sp
		}
	}
	// contracts: //@ lines of contracts_verif.go files (possibly overlaid), then shared specs
	for _, p := range pkgs {
		if !strings.HasPrefix(p.PkgPath, modulePath) {
			continue
		}
		for _, f := range p.CompiledGoFiles {
			if filepath.Base(f) != "contracts_verif.go" {
				continue
			}
			var data []byte
			if o, ok := overlay[f]; ok {
				data = o
			} else if data, err = os.ReadFile(f); err != nil {
				return nil, err
			}
			var lines []srcLine
			for i, l := range strings.Split(string(data), "\n") {
				t := strings.TrimSpace(l)
				if strings.HasPrefix(t, "//@") {
					lines = append(lines, srcLine{t[3:], i + 1})
				}
			}
			ds, err := parseSpecFile(f, p.Name, lines)
			if err != nil {
				return nil, err
			}
			env.decls = append(env.decls, ds...)
			env.contractFiles = append(env.contractFiles, f)
		}
	}
	specs, _ := filepath.Glob(filepath.Join(specDir, "*.spec"))
	sort.Strings(specs)
	for _, f := range specs {
		data, err := os.ReadFile(f)
		if err != nil {
			return nil, err
		}
		var lines []srcLine
		for i, l := range strings.Split(string(data), "\n") {
			lines = append(lines, srcLine{l, i + 1})
		}
		ds, err := parseSpecFile(f, "", lines)
		if err != nil {
			return nil, err
		}
		env.decls = append(env.decls, ds...)
		env.contractFiles = append(env.contractFiles, f)
	}
	for _, d := range env.decls {
		switch d.Kind {
		case "func", "closure":
			env.funcC[declFuncKey(d)] = d
		case "external":
			env.extC[d.Name] = d
		case "interface":
			env.ifaceC[d.TypeN+"."+d.Name] = d
		case "functype":
			env.ftypeC[d.TypeN] = d
		case "pure":
			env.pures[d.Name] = append(env.pures[d.Name], d)
		case "extern":
			env.externs[d.Name] = d
		case "datatype":
			env.dtypes[d.Name] = d
			for _, c := range d.Ctors {
				env.ctors[c.Name] = d
			}
		case "type":
			env.abstract[d.Name] = true
		case "ghostfield":
			env.gfields[d.Pkg+"."+d.TypeN+"."+d.Name] = d
		case "ghostvar":
			env.gvars[d.Name] = d
		case "axiom":
			env.axioms = append(env.axioms, d)
		case "lemma":
			env.lemmas = append(env.lemmas, d)
		}
	}
	env.scanAddrTaken()
	return env, nil
}

// declFuncKey: "pkg.Func", "pkg.(Type).Method", with "$k" suffixes for closures. Pointer-ness of
// the receiver is ignored (a type cannot have both).
func declFuncKey(d *Decl) string {
	k := d.Pkg + "."
	if d.Recv != nil {
		t := d.Recv.Type
		for t.Kind == "ptr" {
			t = t.Elem
		}
		k += "(" + t.Name + ")."
	}
	k += d.Name
	for _, c := range d.Closure {
		k += fmt.Sprintf("$%d", c)
	}
	return k
}

// funcKey computes the same key for an ssa function (generic instances map to their origin).
func funcKey(f *ssa.Function) string {
	if f.Origin() != nil {
		f = f.Origin()
	}
	if f.Parent() != nil {
		// closure: name is Parent$k
		return funcKey(f.Parent()) + f.Name()[strings.LastIndex(f.Name(), "$"):]
	}
	if f.Pkg == nil {
		return f.String()
	}
	k := f.Pkg.Pkg.Name() + "."
	if recv := f.Signature.Recv(); recv != nil {
		t := recv.Type()
		if p, ok := t.(*types.Pointer); ok {
			t = p.Elem()
		}
		if n, ok := t.(*types.Named); ok {
			k += "(" + n.Obj().Name() + ")."
		}
	}
	return k + f.Name()
}

// extName is the name under which an external function's contract is looked up:
// "strconv.Itoa", "(*strings.Builder).WriteString", "(*math/rand.Rand).Intn".
func extName(f *ssa.Function) string {
	if f.Origin() != nil {
		f = f.Origin()
	}
	return f.String()
}

// findFunction resolves a key produced by declFuncKey to the ssa function.
func (env *Env) findFunction(key string) *ssa.Function {
	for _, sp := range env.prog.AllPackages() {
		if !strings.HasPrefix(sp.Pkg.Path(), modulePath) {
			continue
		}
		for _, f := range allFunctionsOf(env.prog, sp) {
			if funcKey(f) == key && f.Origin() == nil {
				return f
			}
		}
	}
	return nil
}

func allFunctionsOf(prog *ssa.Program, sp *ssa.Package) []*ssa.Function {
	var out []*ssa.Function
	seen := map[*ssa.Function]bool{}
	var add func(f *ssa.Function)
	add = func(f *ssa.Function) {
		if f == nil || seen[f] {
			return
		}
		seen[f] = true
		out = append(out, f)
		for _, a := range f.AnonFuncs {
			add(a)
		}
	}
	names := make([]string, 0, len(sp.Members))
	for n := range sp.Members {
		names = append(names, n)
	}
	sort.Strings(names)
	for _, n := range names {
		switch m := sp.Members[n].(type) {
		case *ssa.Function:
			add(m)
		case *ssa.Type:
			for _, t := range []types.Type{m.Type(), types.NewPointer(m.Type())} {
				ms := prog.MethodSets.MethodSet(t)
				for i := 0; i < ms.Len(); i++ {
					fn := prog.MethodValue(ms.At(i))
					if fn != nil && fn.Pkg == sp && fn.Synthetic == "" {
						add(fn)
					} else if fn != nil && fn.Origin() != nil && fn.Origin().Pkg == sp {
						add(fn.Origin())
					}
				}
			}
			// generic types have no method sets with bodies through MethodValue: use the named type's methods
			if named, ok := m.Type().(*types.Named); ok {
				for i := 0; i < named.NumMethods(); i++ {
					add(prog.FuncValue(named.Method(i)))
				}
			}
		}
	}
	return out
}

func (env *Env) modulePackages() []*ssa.Package {
	var out []*ssa.Package
	for _, sp := range env.prog.AllPackages() {
		if strings.HasPrefix(sp.Pkg.Path(), modulePath) {
			out = append(out, sp)
		}
	}
	sort.Slice(out, func(i, j int) bool { return out[i].Pkg.Path() < out[j].Pkg.Path() })
	return out
}

// scanAddrTaken finds struct fields of non-struct type whose address is used other than for an
// immediate load/store/addressing anywhere in the module (DESIGN 2.3). Such fields live in the box
// component of their type at a derived ("inner") reference.
func (env *Env) scanAddrTaken() {
	for _, sp := range env.modulePackages() {
		for _, f := range allFunctionsOf(env.prog, sp) {
			for _, b := range f.Blocks {
				for _, in := range b.Instrs {
					fa, ok := in.(*ssa.FieldAddr)
					if !ok {
						continue
					}
					st := fa.X.Type().Underlying().(*types.Pointer).Elem()
					fld := st.Underlying().(*types.Struct).Field(fa.Field)
					if _, isStruct := fld.Type().Underlying().(*types.Struct); isStruct {
						continue
					}
					for _, r := range *fa.Referrers() {
						switch u := r.(type) {
						case *ssa.UnOp, *ssa.FieldAddr, *ssa.IndexAddr, *ssa.DebugRef:
						case *ssa.Store:
							if u.Val == fa {
								env.addrTaken[fieldKey(st, fld.Name())] = true
							}
						default:
							env.addrTaken[fieldKey(st, fld.Name())] = true
						}
					}
				}
			}
		}
	}
}

// fieldKey names a struct field independent of instantiation: "pkg.Type.field".
func fieldKey(st types.Type, field string) string {
	if n, ok := st.(*types.Named); ok {
		return qual(n.Obj().Pkg()) + "." + n.Obj().Name() + "." + field
	}
	return typeKey(st) + "." + field
}

func (env *Env) position(p token.Pos) string {
	if !p.IsValid() {
		return ""
	}
	pp := env.fset.Position(p)
	return fmt.Sprintf("%s:%d", strings.TrimPrefix(pp.Filename, "/repo/"), pp.Line)
}
