package main

import (
	"hash/fnv"
	"crypto/sha256"
	"encoding/hex"
	"encoding/json"
	"flag"
	"fmt"
	"os"
	"os/exec"
	"path/filepath"
	"sort"
	"strings"
	"sync"
	"time"
)

func (vc *VC) query(o *Obligation) string {
	var b strings.Builder
	b.WriteString("(set-option :produce-models true)\n(set-logic ALL)\n")
	for _, d := range vc.decls {
		b.WriteString(d)
		b.WriteByte('\n')
	}
	for _, f := range vc.facts[:o.FactIdx] {
		if f.block >= 0 && o.Block >= 0 && f.block != o.Block && !vc.reachable[[2]int{f.block, o.Block}] {
			continue
		}
		b.WriteString(f.text)
		b.WriteByte('\n')
	}
	fmt.Fprintf(&b, "(assert %s)\n", o.Guard)
	fmt.Fprintf(&b, "(assert (not %s))\n", o.Goal)
	b.WriteString("(check-sat)\n")
	if len(o.Witness) > 0 {
		var ts []string
		for _, w := range o.Witness {
			ts = append(ts, w.T)
		}
		fmt.Fprintf(&b, "(get-value (%s))\n", strings.Join(ts, " "))
	}
	return b.String()
}

type runOpts struct {
	scratch  string
	timeoutS int
	all      bool
	workers  int
	verbose  bool
	noRetry  bool
	cacheDir string // content-addressed cache of discharged queries (key: SHA-256 of the full query text)
}

// The cache maps the hash of a complete SMT query to the fact that a back end answered unsat for
// exactly that text. The text is generated from the current tree on every run, so an entry can never
// be stale: a changed function, contract or axiom produces a different query. Only unsat is cached.
func cacheLookup(dir, query string) (solveResult, bool) {
	sum := sha256.Sum256([]byte(query))
	data, err := os.ReadFile(filepath.Join(dir, hex.EncodeToString(sum[:])))
	if err != nil {
		return solveResult{}, false
	}
	f := strings.Fields(string(data))
	if len(f) < 3 || f[0] != "unsat" {
		return solveResult{}, false
	}
	var secs float64
	fmt.Sscan(f[2], &secs)
	return solveResult{Answer: "unsat", Backend: f[1], TimeS: secs, Cached: true, All: map[string]string{f[1]: "unsat"}}, true
}

func cacheLookupIf(dir, query string) (solveResult, bool) {
	if dir == "" {
		return solveResult{}, false
	}
	return cacheLookup(dir, query)
}

func cacheStore(dir, query string, r solveResult) {
	sum := sha256.Sum256([]byte(query))
	os.MkdirAll(dir, 0o755)
	os.WriteFile(filepath.Join(dir, hex.EncodeToString(sum[:])), []byte(fmt.Sprintf("unsat %s %.3f\n", r.Backend, r.TimeS)), 0o644)
}

// discharge runs every obligation of the given VCs through the solver race.
func discharge(vcs []*VC, opt runOpts) {
	type job struct {
		vc *VC
		o  *Obligation
	}
	var jobs []job
	for _, vc := range vcs {
		for _, o := range vc.obls {
			jobs = append(jobs, job{vc, o})
		}
	}
	ch := make(chan job)
	var wg sync.WaitGroup
	for i := 0; i < opt.workers; i++ {
		wg.Add(1)
		go func() {
			defer wg.Done()
			for j := range ch {
				t := opt.timeoutS
				if strings.HasPrefix(j.o.Expect, "finding:") {
					t = 5
				}
				if j.o.Expect == "fail" {
					t = 2
					if t > opt.timeoutS {
						t = opt.timeoutS
					}
				}
				q := j.vc.query(j.o)
				var r solveResult
				// thorough tier: every eighth obligation (by name hash) is decided by all back ends independently and
				// their answers compared; the others are decided as in the quick tier, with the larger budget, no cache
				all := false
				if opt.all {
					h := fnv.New32a()
					h.Write([]byte(j.o.Name))
					all = h.Sum32()%8 == 0
				}
				if opt.cacheDir != "" && j.o.Expect == "" && !opt.all {
					if cr, ok := cacheLookup(opt.cacheDir, q); ok {
						j.o.Result = &cr
						continue
					}
				}
				staged := false
				if !all && j.o.Expect == "" && len(j.vc.facts) > 150 {
					// stage 0: premise selection (sound: assumptions are only dropped)
					hit := false
					for _, strict := range []int{1, 3} {
						sq := j.vc.slicedQuery(j.o, strict)
						if cr, ok := cacheLookupIf(opt.cacheDir, sq); ok {
							j.o.Result = &cr
							hit = true
							break
						}
						r = raceSolveOn(opt.scratch, fmt.Sprintf("%s.slice%v", j.o.Name, strict), sq, 2, false, backends[:2])
						if r.Answer == "unsat" {
							r.Backend += " (sliced)"
							staged = true
							if opt.cacheDir != "" {
								cacheStore(opt.cacheDir, sq, r)
							}
							break
						}
					}
					if hit {
						continue
					}
				}
				if !staged && !all && j.o.Expect != "fail" {
					// stage 1: the back end that decides most obligations, alone and briefly;
					// stage 2 (below) is the full race
					r = raceSolveOn(opt.scratch, j.o.Name, q, 2, false, backends[:1])
					staged = r.Answer == "unsat"
				}
				if !staged {
					r = raceSolve(opt.scratch, j.o.Name, q, t, all && j.o.Expect != "fail")
				}
				j.o.Result = &r
				if opt.cacheDir != "" && r.Answer == "unsat" && j.o.Expect == "" {
					cacheStore(opt.cacheDir, q, r)
				}
			}
		}()
	}
	for _, j := range jobs {
		ch <- j
	}
	close(ch)
	wg.Wait()
	if opt.noRetry {
		return
	}
	// Alarm hygiene: an obligation left undecided (timeout / unknown, not a counterexample) in the
	// parallel phase is tried again when the machine is quiet: few at a time, four times the budget,
	// all back ends. Only the first 16 are retried: more undecided obligations than that are not noise.
	var again []job
	for _, j := range jobs {
		if j.o.Expect == "" && j.o.Result != nil && j.o.Result.Answer != "unsat" && j.o.Result.Answer != "sat" && j.o.Result.Answer != "error" {
			again = append(again, j)
		}
	}
	if len(again) > 16 {
		again = again[:16]
	}
	sem := make(chan bool, 3)
	var wg2 sync.WaitGroup
	for _, j := range again {
		wg2.Add(1)
		sem <- true
		go func(j job) {
			defer wg2.Done()
			defer func() { <-sem }()
			q := j.vc.query(j.o)
			r2 := raceSolve(opt.scratch, j.o.Name+".retry", q, 4*opt.timeoutS, false)
			if r2.Answer != "unsat" && r2.Answer != "sat" && len(j.vc.facts) > 150 {
				sq := j.vc.slicedQuery(j.o, 3)
				if r3 := raceSolve(opt.scratch, j.o.Name+".retry-sliced", sq, 2*opt.timeoutS, false); r3.Answer == "unsat" {
					r3.Backend += " (sliced)"
					r2 = r3
				}
			}
			if r2.Answer == "unsat" || r2.Answer == "sat" {
				r2.TimeS += j.o.Result.TimeS
				j.o.Result = &r2
				if opt.cacheDir != "" && r2.Answer == "unsat" && !strings.Contains(r2.Backend, "sliced") {
					cacheStore(opt.cacheDir, q, r2)
				}
			}
		}(j)
	}
	wg2.Wait()
}

func (o *Obligation) ok() bool {
	if o.Result == nil {
		return false
	}
	if o.Expect == "fail" {
		return o.Result.Answer != "unsat"
	}
	return o.Result.Answer == "unsat"
}

func main() {
	if len(os.Args) < 2 {
		fmt.Fprintln(os.Stderr, "usage: govc verify|check|list ...")
		os.Exit(2)
	}
	switch os.Args[1] {
	case "verify":
		cmdVerify(os.Args[2:])
	case "check":
		cmdCheck(os.Args[2:])
	case "list":
		cmdList(os.Args[2:])
	case "selftest":
		cmdSelftest(os.Args[2:])
	case "replay":
		cmdReplay(os.Args[2:])
	default:
		fmt.Fprintln(os.Stderr, "unknown command", os.Args[1])
		os.Exit(2)
	}
}

func cmdList(args []string) {
	fs := flag.NewFlagSet("list", flag.ExitOnError)
	repo := fs.String("repo", "/repo", "")
	spec := fs.String("spec", "/verif/spec", "")
	fs.Parse(args)
	env, err := loadEnv(*repo, *spec, nil)
	if err != nil {
		fmt.Fprintln(os.Stderr, err)
		os.Exit(2)
	}
	var keys []string
	for k := range env.funcC {
		keys = append(keys, k)
	}
	sort.Strings(keys)
	for _, k := range keys {
		f := env.findFunction(k)
		st := "bound"
		if f == nil {
			st = "UNBOUND"
		}
		fmt.Printf("%-60s %s\n", k, st)
	}
}

func cmdVerify(args []string) {
	fs := flag.NewFlagSet("verify", flag.ExitOnError)
	repo := fs.String("repo", "/repo", "")
	spec := fs.String("spec", "/verif/spec", "")
	funcs := fs.String("funcs", "", "comma-separated function keys (default: all with contracts)")
	timeout := fs.Int("timeout", 20, "")
	all := fs.Bool("all-backends", false, "")
	keep := fs.String("keep", "", "keep queries in this directory")
	verbose := fs.Bool("v", false, "")
	only := fs.String("only", "", "substring filter on obligation names")
	mutant := fs.String("mutant", "", "verify the tree with this patch applied (through an overlay; /repo is not touched)")
	carved := fs.Bool("carved", false, "assume the carve-outs of known findings")
	fast := fs.Bool("fast", false, "no retry of undischarged obligations (for contract development)")
	workers := fs.Int("workers", 8, "")
	cache := fs.String("cache", "", "directory of the content-addressed query cache")
	fs.Parse(args)
	start := time.Now()
	var overlay map[string][]byte
	if *mutant != "" {
		var err error
		overlay, err = overlayFromPatch(*repo, *mutant)
		if err != nil {
			fmt.Fprintln(os.Stderr, "mutant:", err)
			os.Exit(2)
		}
	}
	env, err := loadEnv(*repo, *spec, overlay)
	if err != nil {
		fmt.Fprintln(os.Stderr, err)
		os.Exit(2)
	}
	fmt.Printf("[govc] loaded in %.1fs\n", time.Since(start).Seconds())
	var keys []string
	if *funcs != "" {
		keys = strings.Split(*funcs, ",")
	} else {
		for k, d := range env.funcC {
			if !hasClause(d, "trusted") {
				keys = append(keys, k)
			}
		}
		sort.Strings(keys)
	}
	scratch := *keep
	if scratch == "" {
		scratch, _ = os.MkdirTemp("", "govc")
		defer os.RemoveAll(scratch)
	} else {
		os.MkdirAll(scratch, 0o755)
	}
	var vcs []*VC
	bad := 0
	for _, k := range keys {
		if strings.HasPrefix(k, "lemma:") {
			vc := lemmaByKey(env, k)
			if vc == nil {
				fmt.Printf("BINDING FAILURE: no lemma %s\n", k)
				bad++
				continue
			}
			if err := vc.generateLemma(); err != nil {
				fmt.Printf("GENERATION FAILED: %v\n", err)
				bad++
				continue
			}
			vcs = append(vcs, vc)
			continue
		}
		d := env.funcC[k]
		if d == nil {
			fmt.Printf("no contract for %s\n", k)
			bad++
			continue
		}
		fn := env.findFunction(k)
		if fn == nil {
			fmt.Printf("BINDING FAILURE: no function %s\n", k)
			bad++
			continue
		}
		vc := newVC(env, fn, d)
		vc.carved = *carved
		if err := vc.generate(); err != nil {
			fmt.Printf("GENERATION FAILED: %v\n", err)
			bad++
			continue
		}
		if *only != "" {
			var keepO []*Obligation
			for _, o := range vc.obls {
				if strings.Contains(o.Name, *only) {
					keepO = append(keepO, o)
				}
			}
			vc.obls = keepO
		}
		vcs = append(vcs, vc)
	}
	discharge(vcs, runOpts{scratch: scratch, timeoutS: *timeout, all: *all, workers: *workers, verbose: *verbose, noRetry: *fast, cacheDir: *cache})
	total, okN := 0, 0
	for _, vc := range vcs {
		for _, o := range vc.obls {
			total++
			if o.ok() {
				okN++
				if *verbose {
					fmt.Printf("  ok   %-70s %s %.2fs\n", o.Name, o.Result.Backend, o.Result.TimeS)
				}
				continue
			}
			fmt.Printf("  FAIL %-70s %s [%s] %s\n", o.Name, o.Result.Answer, o.Pos, o.Result.Backend)
			if o.Result.Answer == "sat" && len(o.Witness) > 0 {
				for _, w := range o.Witness {
					fmt.Printf("         %s = %s\n", w.Name, o.Result.Values[strings.Trim(w.T, "|")])
				}
			}
			if o.Result.Answer == "error" || *verbose {
				fmt.Println(truncate(o.Result.Output, 1500))
			}
		}
	}
	fmt.Printf("[govc] %d functions, %d obligations, %d as expected, %d not; %.1fs\n", len(vcs), total, okN, total-okN, time.Since(start).Seconds())
	if bad > 0 || okN != total {
		os.Exit(1)
	}
}

// overlayFromPatch applies a unified diff to copies of the files it touches and returns them as
// an overlay for go/packages.
func overlayFromPatch(repo, patch string) (map[string][]byte, error) {
	data, err := os.ReadFile(patch)
	if err != nil {
		return nil, err
	}
	tmp, err := os.MkdirTemp("", "govc-mutant")
	if err != nil {
		return nil, err
	}
	defer os.RemoveAll(tmp)
	var files []string
	for _, l := range strings.Split(string(data), "\n") {
		if strings.HasPrefix(l, "+++ ") {
			f := strings.Fields(l)[1]
			f = strings.TrimPrefix(f, "b/")
			if f != "/dev/null" {
				files = append(files, f)
			}
		}
	}
	for _, f := range files {
		src, err := os.ReadFile(filepath.Join(repo, f))
		if err != nil {
			src = nil // new file
		}
		os.MkdirAll(filepath.Dir(filepath.Join(tmp, f)), 0o755)
		if err := os.WriteFile(filepath.Join(tmp, f), src, 0o644); err != nil {
			return nil, err
		}
	}
	abs, _ := filepath.Abs(patch)
	cmd := exec.Command("patch", "-p1", "-s", "-d", tmp, "-i", abs)
	if out, err := cmd.CombinedOutput(); err != nil {
		return nil, fmt.Errorf("patch failed: %v: %s", err, out)
	}
	ov := map[string][]byte{}
	for _, f := range files {
		b, err := os.ReadFile(filepath.Join(tmp, f))
		if err != nil {
			return nil, err
		}
		ov[filepath.Join(repo, f)] = b
	}
	return ov, nil
}

func lemmaByKey(env *Env, key string) *VC {
	for _, d := range env.lemmas {
		if "lemma:"+d.Pkg+"."+d.Name == key {
			return newLemmaVC(env, d)
		}
	}
	return nil
}

func hasClause(d *Decl, kind string) bool {
	for _, c := range d.Clauses {
		if c.Kind == kind {
			return true
		}
	}
	return false
}


func cmdSelftest(args []string) { fmt.Println("use bin/selftest"); os.Exit(2) }

// cmdReplay re-checks the obligation recorded in a replay file against the current tree.
func cmdReplay(args []string) {
	if len(args) < 1 {
		fmt.Fprintln(os.Stderr, "usage: govc replay <replay file>")
		os.Exit(2)
	}
	data, err := os.ReadFile(args[0])
	if err != nil {
		fmt.Fprintln(os.Stderr, err)
		os.Exit(2)
	}
	var rp map[string]any
	if err := json.Unmarshal(data, &rp); err != nil {
		fmt.Fprintln(os.Stderr, err)
		os.Exit(2)
	}
	prop, _ := rp["property"].(string)
	obl, _ := rp["obligation"].(string)
	fmt.Printf("replaying %s of %s on the current tree\n", obl, prop)
	if rc, ok := rp["replay_cmd"].(string); ok && rc != "" {
		fmt.Println("concrete replay:", rc)
		cmd := exec.Command("sh", "-c", rc)
		cmd.Stdout, cmd.Stderr = os.Stdout, os.Stderr
		cmd.Run()
	}
	os.Setenv("GOVC_ONLY_OBLIGATION", obl)
	os.Exit(runCheck("/repo", "/verif", prop, "quick", 0, "", false))
}
