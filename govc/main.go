package main

import (
	"fmt"
	"golang.org/x/tools/go/packages"
	"golang.org/x/tools/go/ssa"
	"golang.org/x/tools/go/ssa/ssautil"
)

func main() {
	cfg := &packages.Config{Mode: packages.LoadAllSyntax, Dir: "/repo", BuildFlags: []string{"-tags=verif"}}
	pkgs, err := packages.Load(cfg, "./...")
	if err != nil { panic(err) }
	prog, spkgs := ssautil.AllPackages(pkgs, ssa.NaiveForm|ssa.InstantiateGenerics)
	prog.Build()
	fmt.Println(len(spkgs))
}
