package main

import (
	"bytes"
	"encoding/json"
	"fmt"
	"go/types"
	"os"
	"os/exec"
	"path/filepath"
	"regexp"
	"strconv"
	"strings"
)

// tryReplay turns the solver's counterexample for a failed obligation into an execution of the real code.
//
// Supported: package-level functions (no receiver, no captured variables) whose parameters are integers,
// float64, booleans or strings, when a back end answered sat with a model. The model's arguments are passed
// to the real function in a Go test injected with -overlay (nothing is written to the repository), and the
// real results are compared with the results the model predicts: if they agree, the real code produces exactly
// the outcome that falsifies the obligation (for a safety obligation: if the call panics). Anything else
// (methods, pointers, quantified goals answered unknown) is reported without a failing input.
func tryReplay(env *Env, repo, root string, vc *VC, o *Obligation, scratch string, body map[string]any) bool {
	if vc == nil || vc.fn == nil || o.Result == nil {
		return false
	}
	fn := vc.fn
	if fn.Signature.Recv() != nil || len(fn.FreeVars) > 0 || fn.Parent() != nil || fn.Pkg == nil || fn.Origin() != nil {
		return false
	}
	values := o.Result.Values
	if o.Result.Answer != "sat" || len(values) == 0 {
		// With quantified axioms in the context the solvers answer unknown rather than sat. A candidate is
		// searched in the quantifier-free part of the query (assumptions are only dropped, so the candidate may be
		// spurious: the execution of the real code below decides).
		var qf []string
		for _, l := range strings.Split(vc.query(o), "\n") {
			if !strings.Contains(l, "(forall ") && !strings.Contains(l, "(exists ") {
				qf = append(qf, l)
			}
		}
		r := raceSolveOn(scratch, o.Name+".candidate", strings.Join(qf, "\n"), 5, false, backends[:2])
		if r.Answer != "sat" || len(r.Values) == 0 {
			return false
		}
		values = r.Values
		body["candidate_from"] = "quantifier-free part of the query (" + r.Backend + ")"
	}
	val := func(t Term) (string, bool) {
		v, ok := values[strings.Trim(t, "|")]
		return v, ok
	}
	var args []string
	inputs := map[string]string{}
	byName := map[string]namedTerm{}
	for _, w := range o.Witness {
		byName[w.Name] = w
	}
	params := fn.Signature.Params()
	names := append([]Param{}, vc.decl.Params...)
	if len(names) != params.Len() {
		return false
	}
	for i := 0; i < params.Len(); i++ {
		w, ok := byName[names[i].Name]
		if !ok {
			return false
		}
		mv, ok := val(w.T)
		if !ok {
			return false
		}
		lit, ok := goLiteral(mv, params.At(i).Type())
		if !ok {
			return false
		}
		args = append(args, lit)
		inputs[names[i].Name] = lit
	}
	// predicted results (present for postconditions)
	res := fn.Signature.Results()
	var predicted []string
	for i := 0; i < res.Len(); i++ {
		w, ok := byName[fmt.Sprintf("result%d", i)]
		if !ok {
			predicted = nil
			break
		}
		mv, ok := val(w.T)
		if !ok {
			predicted = nil
			break
		}
		lit, ok := goLiteral(mv, res.At(i).Type())
		if !ok {
			predicted = nil
			break
		}
		predicted = append(predicted, lit)
	}
	if o.Class != "safe" && predicted == nil {
		return false
	}
	pkgDir := filepath.Dir(env.prog.Fset.Position(fn.Pos()).Filename)
	var lhs []string
	var prints []string
	for i := 0; i < res.Len(); i++ {
		lhs = append(lhs, fmt.Sprintf("r%d", i))
		prints = append(prints, fmt.Sprintf("govcShow(r%d)", i))
	}
	call := fmt.Sprintf("%s(%s)", fn.Name(), strings.Join(args, ", "))
	if len(lhs) > 0 {
		call = strings.Join(lhs, ", ") + " := " + call
	}
	src := fmt.Sprintf(`package %s

import (
	"fmt"
	"math"
	"testing"
)

func govcShow(v any) string {
	switch x := v.(type) {
	case float64:
		if math.IsNaN(x) {
			return "math.NaN()"
		}
		return fmt.Sprintf("math.Float64frombits(0x%%016x)", math.Float64bits(x))
	case string:
		return fmt.Sprintf("%%q", x)
	case error:
		if x == nil {
			return "nil"
		}
		return "error"
	}
	return fmt.Sprint(v)
}

func TestGovcReplay(t *testing.T) {
	defer func() {
		if r := recover(); r != nil {
			fmt.Printf("GOVC-REPLAY-PANIC %%v\n", r)
		}
	}()
	%s
	fmt.Println("GOVC-REPLAY-RESULTS", %s)
}
`, fn.Pkg.Pkg.Name(), call, strings.Join(append(prints, `""`), ", "))
	tmp, err := os.MkdirTemp("", "govc-replay")
	if err != nil {
		return false
	}
	defer os.RemoveAll(tmp)
	testFile := filepath.Join(tmp, "replay_test.go")
	os.WriteFile(testFile, []byte(src), 0o644)
	ov := map[string]string{filepath.Join(pkgDir, "zz_govc_replay_test.go"): testFile}
	i := 0
	for path, content := range env.overlay {
		f := filepath.Join(tmp, fmt.Sprintf("ov%d.go", i))
		i++
		os.WriteFile(f, content, 0o644)
		ov[path] = f
	}
	ovData, _ := json.Marshal(map[string]any{"Replace": ov})
	ovFile := filepath.Join(tmp, "overlay.json")
	os.WriteFile(ovFile, ovData, 0o644)
	cmd := exec.Command("go", "test", "-overlay", ovFile, "-vet=off", "-count=1", "-timeout", "60s", "-run", "^TestGovcReplay$", "-v", ".")
	cmd.Dir = pkgDir
	cmd.Env = append(os.Environ(), "GOFLAGS=-mod=mod", "GOPROXY=off", "GOSUMDB=off", "GOTOOLCHAIN=local")
	var buf bytes.Buffer
	cmd.Stdout, cmd.Stderr = &buf, &buf
	cmd.Run()
	out := buf.String()
	rep := map[string]any{"inputs": inputs, "call": fmt.Sprintf("%s.%s(%s)", fn.Pkg.Pkg.Name(), fn.Name(), strings.Join(args, ", ")), "test_source": src,
		"how": "go test -overlay (in-package test injected without writing to the repository) -run ^TestGovcReplay$ in " + pkgDir}
	confirmed := false
	switch {
	case strings.Contains(out, "GOVC-REPLAY-PANIC"):
		rep["real_outcome"] = "panic: " + strings.TrimSpace(lineAfter(out, "GOVC-REPLAY-PANIC"))
		confirmed = o.Class == "safe"
	case strings.Contains(out, "GOVC-REPLAY-RESULTS"):
		real := strings.Fields(lineAfter(out, "GOVC-REPLAY-RESULTS"))
		rep["real_results"] = real
		rep["predicted_results"] = predicted
		if predicted != nil && len(real) == len(predicted) {
			confirmed = true
			for i := range real {
				if real[i] != normaliseLit(predicted[i]) {
					confirmed = false
				}
			}
		}
	default:
		rep["real_outcome"] = "the replay did not run: " + truncate(out, 1500)
	}
	rep["confirmed"] = confirmed
	body["replay"] = rep
	if confirmed {
		body["failing_input"] = inputs
	}
	return confirmed
}

func lineAfter(out, marker string) string {
	i := strings.Index(out, marker)
	if i < 0 {
		return ""
	}
	s := out[i+len(marker):]
	if j := strings.IndexByte(s, '\n'); j >= 0 {
		s = s[:j]
	}
	return s
}

var typedIntRe = regexp.MustCompile(`^[a-z0-9]+\((-?[0-9]+)\)$`)

func normaliseLit(l string) string {
	if l == "true" || l == "false" {
		return l
	}
	if m := typedIntRe.FindStringSubmatch(l); m != nil {
		return m[1] // int64(9) is printed as 9
	}
	return strings.ReplaceAll(l, " ", "")
}

var fpRe = regexp.MustCompile(`^\(fp #b([01]) #b([01]{11}) #x([0-9a-fA-F]{13})\)$`)

// goLiteral renders a model value as a Go expression of the given basic type.
func goLiteral(mv string, t types.Type) (string, bool) {
	b, ok := t.Underlying().(*types.Basic)
	if !ok {
		return "", false
	}
	mv = strings.TrimSpace(mv)
	switch {
	case b.Info()&types.IsInteger != 0:
		s := mv
		if strings.HasPrefix(s, "(- ") {
			s = "-" + strings.TrimSuffix(strings.TrimPrefix(s, "(- "), ")")
		}
		if _, err := strconv.ParseInt(s, 10, 64); err != nil {
			return "", false
		}
		if b.Kind() != types.Int && b.Kind() != types.UntypedInt {
			return fmt.Sprintf("%s(%s)", b.Name(), s), true
		}
		return s, true
	case b.Info()&types.IsBoolean != 0:
		if mv == "true" || mv == "false" {
			return mv, true
		}
	case b.Kind() == types.Float64:
		switch {
		case strings.HasPrefix(mv, "(_ NaN"):
			return "math.NaN()", true
		case strings.HasPrefix(mv, "(_ +oo"):
			return "math.Float64frombits(0x7ff0000000000000)", true
		case strings.HasPrefix(mv, "(_ -oo"):
			return "math.Float64frombits(0xfff0000000000000)", true
		case strings.HasPrefix(mv, "(_ +zero"):
			return "math.Float64frombits(0x0000000000000000)", true
		case strings.HasPrefix(mv, "(_ -zero"):
			return "math.Float64frombits(0x8000000000000000)", true
		}
		if m := fpRe.FindStringSubmatch(mv); m != nil {
			sign, _ := strconv.ParseUint(m[1], 2, 64)
			exp, _ := strconv.ParseUint(m[2], 2, 64)
			man, _ := strconv.ParseUint(m[3], 16, 64)
			return fmt.Sprintf("math.Float64frombits(0x%016x)", sign<<63|exp<<52|man), true
		}
	case b.Info()&types.IsString != 0:
		if len(mv) >= 2 && mv[0] == '"' && mv[len(mv)-1] == '"' {
			s := strings.ReplaceAll(mv[1:len(mv)-1], `""`, `"`)
			// SMT-LIB unicode escapes \u{X}
			s = regexp.MustCompile(`\\u\{([0-9a-fA-F]+)\}`).ReplaceAllStringFunc(s, func(e string) string {
				n, _ := strconv.ParseUint(e[3:len(e)-1], 16, 32)
				return string(rune(n))
			})
			return strconv.Quote(s), true
		}
	}
	return "", false
}
