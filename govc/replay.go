package main

// tryReplay attempts to turn a failed obligation into a failing input of the real code.
func tryReplay(env *Env, repo, root string, vc *VC, o *Obligation, scratch string, body map[string]any) bool {
	return false
}
