package main

import (
	"fmt"
	"regexp"
	"strings"
)

// Premise selection ("stage 0"). A query with every fact of a large function makes the solvers
// spend their time instantiating quantified facts that have nothing to do with the goal. Dropping
// assumptions is always sound (a weaker antecedent), so each obligation is first tried on a slice:
// the goal, the definitions it depends on (transitively), the ground assumptions and the quantified
// assumptions that mention a symbol of that cone, and the theory axioms of the function symbols
// that occur in it. Only if the slice is not decided is the full query used.

var symRe = regexp.MustCompile(`\|[^|]*\||[A-Za-z_.][A-Za-z0-9_.!@$*\-\[\]/]*`)

// specific symbols: generated constants (contain ! or @) and ys. function symbols other than the
// ubiquitous slice/interface selectors
func specificSyms(s string, into map[string]bool) {
	for _, m := range symRe.FindAllString(s, -1) {
		t := strings.Trim(m, "|")
		if !(strings.ContainsAny(t, "!@") || strings.HasPrefix(t, "ys.")) {
			continue
		}
		switch t {
		case "ys.len", "ys.arr", "ys.off", "ys.cap", "ys.mkslice", "ys.ityp", "ys.ipay", "ys.mkiface", "ys.root", "ys.itag", "ys.Slice", "ys.Iface", "ys.quot", "ys.rem":
			continue
		}
		into[t] = true
	}
}

var defRe = regexp.MustCompile(`^\(assert \(= (\|[^|]*\||[^ ()]+) `)

// slicedQuery levels: 1 and 2 expand the goal's symbols through that many rounds of definitions and
// take the assumptions that mention them (no further growth); 3 is the definitional closure with
// small ground assumptions extending the cone; 4 lets every ground assumption extend it.
func (vc *VC) slicedQuery(o *Obligation, level int) string {
	strict := level <= 3
	S := map[string]bool{}
	specificSyms(o.Goal, S)
	specificSyms(o.Guard, S)
	facts := vc.facts[:o.FactIdx]
	// definitions by name
	defOf := map[string]int{}
	for i, f := range facts {
		if f.block == -1 {
			if m := defRe.FindStringSubmatch(f.text); m != nil && strings.Contains(m[1], "!") {
				defOf[strings.Trim(m[1], "|")] = i
			}
		}
	}
	included := make([]bool, len(facts))
	relevantBlock := func(f fact) bool {
		return !(f.block >= 0 && o.Block >= 0 && f.block != o.Block && !vc.reachable[[2]int{f.block, o.Block}])
	}
	// closure through definitions and through assumptions that mention cone symbols
	round := 0
	for changed := true; changed; {
		changed = false
		round++
		if level <= 2 && round > level+1 {
			break
		}
		for s := range S {
			if strict && (strings.HasPrefix(s, "reach!") || strings.HasPrefix(s, "edge!") || strings.HasPrefix(s, "back!")) {
				continue // path conditions are replaced by asserting the reachability of the dominators (below)
			}
			if i, ok := defOf[s]; ok && !included[i] {
				included[i] = true
				specificSyms(facts[i].text, S)
				changed = true
			}
		}
		for i, f := range facts {
			if included[i] || !relevantBlock(f) {
				continue
			}
			if _, isDef := defOf[defName(f.text)]; isDef && f.block == -1 {
				continue
			}
			syms := map[string]bool{}
			specificSyms(f.text, syms)
			hit := false
			for s := range syms {
				if S[s] && strings.ContainsAny(s, "!@") {
					hit = true
					break
				}
			}
			if hit {
				included[i] = true
				// a ground assumption extends the cone; a quantified one does not (it would pull in everything)
				if level <= 2 {
					continue // shallow slices do not grow through assumptions
				}
				if !strings.Contains(f.text, "(forall") && !strings.Contains(f.text, "(exists") && (!strict || len(f.text) < 260) {
					before := len(S)
					specificSyms(f.text, S)
					if len(S) != before {
						changed = true
					}
				} else {
					// but the function symbols it uses need their axioms
					for s := range syms {
						if strings.HasPrefix(s, "ys.") && !S[s] {
							S[s] = true
							changed = true
						}
					}
				}
			}
		}
	}
	var b strings.Builder
	b.WriteString("(set-option :produce-models true)\n(set-logic ALL)\n")
	for _, d := range vc.decls {
		// a declaration block keeps its declarations; its axioms only if it defines a symbol of the cone
		if !strings.Contains(d, "(assert") {
			b.WriteString(d)
			b.WriteByte('\n')
			continue
		}
		syms := map[string]bool{}
		for _, l := range strings.Split(d, "\n") {
			if strings.HasPrefix(l, "(declare") || strings.HasPrefix(l, "(define") {
				specificSyms(l, syms)
			}
		}
		use := len(syms) == 0
		for s := range syms {
			if S[s] {
				use = true
			}
		}
		if !use && !strings.HasPrefix(d, "(declare") && !strings.HasPrefix(d, "(define") {
			// a bare axiom (e.g. of a spec function): keep if it mentions a cone symbol
			as := map[string]bool{}
			specificSyms(d, as)
			for s := range as {
				if S[s] {
					use = true
				}
			}
		}
		for _, l := range strings.Split(d, "\n") {
			if use || !strings.HasPrefix(l, "(assert") {
				b.WriteString(l)
				b.WriteByte('\n')
			}
		}
	}
	for i, f := range facts {
		if included[i] {
			b.WriteString(f.text)
			b.WriteByte('\n')
		}
	}
	if strict && o.Block >= 0 && vc.fn != nil {
		// every block that dominates the obligation's block was executed
		ob := vc.fn.Blocks[o.Block]
		for _, d := range vc.fn.Blocks {
			if d != ob && d.Dominates(ob) {
				if r, ok := vc.reach[d]; ok && r != "true" && r != "false" {
					fmt.Fprintf(&b, "(assert %s)\n", r)
				}
			}
		}
	}
	fmt.Fprintf(&b, "(assert %s)\n(assert (not %s))\n(check-sat)\n", o.Guard, o.Goal)
	return b.String()
}

func defName(text string) string {
	if m := defRe.FindStringSubmatch(text); m != nil {
		return strings.Trim(m[1], "|")
	}
	return ""
}
