package main

import (
	"bytes"
	"context"
	"fmt"
	"os"
	"os/exec"
	"path/filepath"
	"strings"
	"sync"
	"syscall"
	"time"
)

// Back ends. Every obligation is raced on all of them; the first definite answer wins.
type backend struct {
	name string
	argv func(file string, timeoutS int) []string
}

var backends = []backend{
	{"z3-5.1.0", func(f string, t int) []string {
		return []string{"z3-new", fmt.Sprintf("-T:%d", t), "-smt2", f}
	}},
	{"cvc5-1.0", func(f string, t int) []string {
		return []string{"cvc5", "--lang=smt2", fmt.Sprintf("--tlimit=%d", t*1000), "--strings-exp", "--fp-exp", f}
	}},
	{"z3-4.8.12", func(f string, t int) []string {
		return []string{"/usr/bin/z3", fmt.Sprintf("-T:%d", t), "-smt2", f}
	}},
}

type solveResult struct {
	Answer  string // unsat | sat | unknown | timeout | error
	Backend string
	TimeS   float64
	Output  string
	Cached  bool
	Values  map[string]string // get-value results when sat
	All     map[string]string // per back end answers (thorough tier)
}

func firstAnswer(out string) (string, bool) {
	// an error printed before the answer voids it (e.g. a rejected declaration followed by "sat");
	// errors after the answer come from get-value and do not affect it
	for _, l := range strings.Split(out, "\n") {
		l = strings.TrimSpace(l)
		switch {
		case l == "sat" || l == "unsat":
			return l, true
		case l == "unknown" || l == "timeout":
			return l, false
		case strings.HasPrefix(l, "(error"):
			return "error", false
		}
	}
	return "timeout", false
}

var solverSem = make(chan struct{}, 16)

// raceSolve writes the query to a scratch file and runs all back ends. If all is set every back
// end is run to completion and disagreements are reported as answer "disagree".
func raceSolve(scratch, name, query string, timeoutS int, all bool) solveResult {
	return raceSolveOn(scratch, name, query, timeoutS, all, backends)
}

func raceSolveOn(scratch, name, query string, timeoutS int, all bool, backends []backend) solveResult {
	file := filepath.Join(scratch, sanitizeFile(name)+".smt2")
	if err := os.WriteFile(file, []byte(query), 0o644); err != nil {
		return solveResult{Answer: "error", Output: err.Error()}
	}
	ctx, cancel := context.WithCancel(context.Background())
	defer cancel()
	type one struct {
		be   string
		ans  string
		def  bool
		out  string
		secs float64
	}
	ch := make(chan one, len(backends))
	var wg sync.WaitGroup
	for _, be := range backends {
		wg.Add(1)
		go func(be backend) {
			defer wg.Done()
			argv := be.argv(file, timeoutS)
			start := time.Now()
			cmd := exec.CommandContext(ctx, argv[0], argv[1:]...)
			cmd.SysProcAttr = &syscall.SysProcAttr{Setpgid: true}
			cmd.Cancel = func() error { return syscall.Kill(-cmd.Process.Pid, syscall.SIGKILL) }
			var buf bytes.Buffer
			cmd.Stdout = &buf
			cmd.Stderr = &buf
			done := make(chan struct{})
			go func() {
				select {
				case <-done:
				case <-time.After(time.Duration(timeoutS+3) * time.Second):
					if cmd.Process != nil {
						syscall.Kill(-cmd.Process.Pid, syscall.SIGKILL)
					}
				}
			}()
			cmd.Run()
			close(done)
			out := buf.String()
			ans, def := firstAnswer(out)
			if ctx.Err() != nil && !def {
				ans = "cancelled"
			}
			ch <- one{be.name, ans, def, out, time.Since(start).Seconds()}
		}(be)
	}
	go func() { wg.Wait(); close(ch) }()
	res := solveResult{Answer: "timeout", All: map[string]string{}}
	var firstDef *one
	var outs []string
	nerr := 0
	for o := range ch {
		o := o
		res.All[o.be] = o.ans
		outs = append(outs, fmt.Sprintf("--- %s (%.2fs): %s", o.be, o.secs, truncate(o.out, 2000)))
		if o.def {
			if firstDef == nil {
				firstDef = &o
				if !all {
					cancel()
				}
			} else if firstDef.ans != o.ans {
				res.Answer = "disagree"
			}
		} else if firstDef == nil && o.ans == "unknown" {
			res.Answer = "unknown"
		}
		if o.ans == "error" {
			nerr++
		}
	}
	if firstDef != nil && res.Answer != "disagree" {
		res.Answer = firstDef.ans
		res.Backend = firstDef.be
		res.TimeS = firstDef.secs
		res.Output = firstDef.out
		if firstDef.ans == "sat" {
			res.Values = parseValues(firstDef.out)
		}
	} else {
		res.Output = strings.Join(outs, "\n")
		if nerr == len(backends) {
			res.Answer = "error" // every back end rejected the query: a defect of the generator, not of the code
		}
	}
	if (res.Answer == "unsat" || res.Answer == "sat") && os.Getenv("GOVC_KEEP_ALL") == "" {
		os.Remove(file)
	}
	return res
}

func truncate(s string, n int) string {
	if len(s) > n {
		return s[:n] + "...[truncated]"
	}
	return s
}

func sanitizeFile(s string) string {
	var b strings.Builder
	for _, r := range s {
		if r >= 'a' && r <= 'z' || r >= 'A' && r <= 'Z' || r >= '0' && r <= '9' || r == '.' || r == '-' || r == '_' {
			b.WriteRune(r)
		} else {
			b.WriteByte('_')
		}
	}
	out := b.String()
	if len(out) > 150 {
		out = out[:150]
	}
	return out
}

// parseValues reads "((name value) (name value))" blocks printed by get-value.
func parseValues(out string) map[string]string {
	vals := map[string]string{}
	i := strings.Index(out, "((")
	if i < 0 {
		return vals
	}
	s := out[i:]
	// s-expression reader
	pos := 0
	var read func() (string, []string)
	skip := func() {
		for pos < len(s) && (s[pos] == ' ' || s[pos] == '\n' || s[pos] == '\t' || s[pos] == '\r') {
			pos++
		}
	}
	read = func() (string, []string) {
		skip()
		if pos >= len(s) {
			return "", nil
		}
		if s[pos] == '(' {
			start := pos
			pos++
			var kids []string
			for {
				skip()
				if pos >= len(s) {
					break
				}
				if s[pos] == ')' {
					pos++
					break
				}
				k, _ := read()
				kids = append(kids, k)
			}
			return s[start:pos], kids
		}
		start := pos
		if s[pos] == '|' {
			pos++
			for pos < len(s) && s[pos] != '|' {
				pos++
			}
			pos++
			return s[start:pos], nil
		}
		if s[pos] == '"' {
			pos++
			for pos < len(s) {
				if s[pos] == '"' {
					if pos+1 < len(s) && s[pos+1] == '"' {
						pos += 2
						continue
					}
					break
				}
				pos++
			}
			pos++
			return s[start:pos], nil
		}
		for pos < len(s) && !strings.ContainsRune(" \n\t\r()", rune(s[pos])) {
			pos++
		}
		return s[start:pos], nil
	}
	for pos < len(s) {
		skip()
		if pos >= len(s) || s[pos] != '(' {
			break
		}
		// outer list of pairs
		pos++
		for {
			skip()
			if pos >= len(s) || s[pos] == ')' {
				pos++
				break
			}
			if s[pos] != '(' {
				read()
				continue
			}
			pos++
			k, _ := read()
			v, _ := read()
			skip()
			if pos < len(s) && s[pos] == ')' {
				pos++
			}
			vals[strings.Trim(k, "|")] = strings.Join(strings.Fields(v), " ")
		}
	}
	return vals
}
