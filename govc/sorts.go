package main

import (
	"fmt"
	"go/types"
	"strings"
)

// Term is an SMT-LIB term (text). Sorts are SMT-LIB sort texts.
type Term = string

func sym(name string) string {
	ok := name != ""
	for _, r := range name {
		if !(r >= 'a' && r <= 'z' || r >= 'A' && r <= 'Z' || r >= '0' && r <= '9' || strings.ContainsRune("~!@$%^&*_-+=<>.?/", r)) {
			ok = false
			break
		}
	}
	if ok && !(name[0] >= '0' && name[0] <= '9') {
		return name
	}
	return "|" + strings.NewReplacer("|", "!", "\\", "!").Replace(name) + "|"
}

func app(f string, args ...Term) Term {
	if len(args) == 0 {
		return f
	}
	return "(" + f + " " + strings.Join(args, " ") + ")"
}

// splitTop returns the top-level children of an s-expression "(f a b c)": [f a b c].
func splitTop(t Term) []string {
	if len(t) < 2 || t[0] != '(' {
		return nil
	}
	s := t[1 : len(t)-1]
	var out []string
	i := 0
	for i < len(s) {
		for i < len(s) && (s[i] == ' ' || s[i] == '\n') {
			i++
		}
		if i >= len(s) {
			break
		}
		start := i
		switch s[i] {
		case '(':
			d := 0
			for i < len(s) {
				switch s[i] {
				case '(':
					d++
				case ')':
					d--
				case '|':
					i++
					for i < len(s) && s[i] != '|' {
						i++
					}
				case '"':
					i++
					for i < len(s) {
						if s[i] == '"' {
							if i+1 < len(s) && s[i+1] == '"' {
								i += 2
								continue
							}
							break
						}
						i++
					}
				}
				i++
				if d == 0 {
					break
				}
			}
		case '|':
			i++
			for i < len(s) && s[i] != '|' {
				i++
			}
			i++
		case '"':
			i++
			for i < len(s) {
				if s[i] == '"' {
					if i+1 < len(s) && s[i+1] == '"' {
						i += 2
						continue
					}
					break
				}
				i++
			}
			i++
		default:
			for i < len(s) && s[i] != ' ' && s[i] != '(' && s[i] != ')' {
				i++
			}
		}
		out = append(out, s[start:i])
	}
	return out
}

// conjuncts flattens nested conjunctions.
func conjuncts(t Term) []Term {
	if strings.HasPrefix(t, "(and ") {
		var out []Term
		for _, k := range splitTop(t)[1:] {
			out = append(out, conjuncts(k)...)
		}
		return out
	}
	if t == "true" {
		return nil
	}
	if strings.HasPrefix(t, "(forall (") {
		// forall x. G => (A and B)  ==  (forall x. G => A) and (forall x. G => B): one goal / fact per
		// conjunct (the solvers decide the parts in a fraction of the time they need for the whole)
		if parts := splitTop(t); len(parts) == 3 {
			binders, body := parts[1], parts[2]
			attrs := ""
			inner := body
			if strings.HasPrefix(body, "(! ") {
				bp := splitTop(body)
				inner = bp[1]
				attrs = " " + strings.Join(bp[2:], " ")
			}
			guard := ""
			concl := inner
			if strings.HasPrefix(inner, "(=> ") {
				if ip := splitTop(inner); len(ip) == 3 {
					guard, concl = ip[1], ip[2]
				}
			}
			if cs := conjuncts(concl); len(cs) > 1 {
				var out []Term
				for _, c := range cs {
					b := c
					if guard != "" {
						b = "(=> " + guard + " " + c + ")"
					}
					if attrs != "" {
						b = "(! " + b + attrs + ")"
					}
					out = append(out, "(forall "+binders+" "+b+")")
				}
				return out
			}
		}
	}
	return []Term{t}
}

func and(ts ...Term) Term {
	var out []Term
	for _, t := range ts {
		if t == "true" || t == "" {
			continue
		}
		if t == "false" {
			return "false"
		}
		if strings.HasPrefix(t, "(and ") {
			out = append(out, conjuncts(t)...)
			continue
		}
		out = append(out, t)
	}
	switch len(out) {
	case 0:
		return "true"
	case 1:
		return out[0]
	}
	return app("and", out...)
}

func or(ts ...Term) Term {
	var out []Term
	for _, t := range ts {
		if t == "false" || t == "" {
			continue
		}
		if t == "true" {
			return "true"
		}
		out = append(out, t)
	}
	switch len(out) {
	case 0:
		return "false"
	case 1:
		return out[0]
	}
	return app("or", out...)
}

func not(t Term) Term {
	switch t {
	case "true":
		return "false"
	case "false":
		return "true"
	}
	if strings.HasPrefix(t, "(not ") && balanced(t[5:len(t)-1]) {
		return t[5 : len(t)-1]
	}
	return app("not", t)
}

func balanced(s string) bool {
	d := 0
	inq := false
	for i := 0; i < len(s); i++ {
		switch s[i] {
		case '|', '"':
			inq = !inq
		case '(':
			if !inq {
				d++
			}
		case ')':
			if !inq {
				d--
				if d < 0 {
					return false
				}
			}
		}
	}
	return d == 0
}

func implies(a, b Term) Term {
	if a == "true" {
		return b
	}
	if b == "true" || a == "false" {
		return "true"
	}
	return app("=>", a, b)
}

func ite(c, a, b Term) Term {
	if c == "true" {
		return a
	}
	if c == "false" {
		return b
	}
	if a == b {
		return a
	}
	return app("ite", c, a, b)
}

func eq(a, b Term) Term {
	if a == b {
		return "true"
	}
	return app("=", a, b)
}

func intLit(n int64) Term {
	if n < 0 {
		return fmt.Sprintf("(- %d)", -n)
	}
	return fmt.Sprint(n)
}

func strLit(s string) Term {
	var b strings.Builder
	b.WriteByte('"')
	for _, c := range []byte(s) {
		switch {
		case c == '"':
			b.WriteString(`""`)
		case c >= 32 && c < 127 && c != '\\':
			b.WriteByte(c)
		default:
			fmt.Fprintf(&b, `\u{%x}`, c)
		}
	}
	b.WriteByte('"')
	return b.String()
}

// ---- sorts ------------------------------------------------------------------------------------

const (
	sInt   = "Int"
	sBool  = "Bool"
	sStr   = "String"
	sFloat = "Float64"
	sSlice = "ys.Slice"
	sIface = "ys.Iface"
)

// SType is the type of a specification expression: a Go type or a spec-only type.
type SType struct {
	Go   types.Type // non-nil for program types
	Kind string     // "go", "seq", "set", "map", "data", "abstract", "tuple"
	Name string     // datatype / abstract sort name
	Elem *SType
	Key  *SType
}

func goT(t types.Type) *SType { return &SType{Go: t, Kind: "go"} }

var (
	tInt    = types.Typ[types.Int]
	tBool   = types.Typ[types.Bool]
	tString = types.Typ[types.String]
	tFloat  = types.Typ[types.Float64]
)

func (t *SType) String() string {
	if t == nil {
		return "<nil>"
	}
	switch t.Kind {
	case "go":
		return typeKey(t.Go)
	case "seq":
		return "seq[" + t.Elem.String() + "]"
	case "set":
		return "set[" + t.Elem.String() + "]"
	case "map":
		return "mmap[" + t.Key.String() + "]" + t.Elem.String()
	}
	return t.Name
}

// sortReg collects the sort and function declarations a query needs, in dependency order.
type sortReg struct {
	emit    func(string)      // appends a declaration text to the query preamble, in creation order
	have    map[string]bool   // by declared name
	structs map[string]string // typeKey -> sort name
	seqs    map[string]bool
	typeIDs map[string]int
	tidList []string
}

func newSortReg(emit func(string)) *sortReg {
	r := &sortReg{emit: emit, have: map[string]bool{}, structs: map[string]string{}, seqs: map[string]bool{}, typeIDs: map[string]int{}}
	// Float64 is a predefined sort of the FloatingPoint theory: (_ FloatingPoint 11 53)
	r.decl(sSlice, "(declare-datatypes ((ys.Slice 0)) (((ys.mkslice (ys.arr Int) (ys.off Int) (ys.len Int) (ys.cap Int)))))")
	r.decl(sIface, "(declare-datatypes ((ys.Iface 0)) (((ys.mkiface (ys.ityp Int) (ys.ipay Int)))))")
	// the object a reference belongs to: itself for ordinary references (>= 0), the enclosing object for derived ones
	r.decl("ys.root", "(declare-fun ys.root (Int) Int)\n(assert (forall ((p Int)) (! (=> (>= p 0) (= (ys.root p) p)) :pattern ((ys.root p)))))")
	r.decl("ys.quot", divAxioms)
	return r
}

func (r *sortReg) decl(name, text string) {
	if r.have[name] {
		return
	}
	r.have[name] = true
	r.emit(text)
}

func (r *sortReg) typeID(t types.Type) int {
	k := typeKey(t)
	if id, ok := r.typeIDs[k]; ok {
		return id
	}
	id := len(r.typeIDs) + 1
	r.typeIDs[k] = id
	r.tidList = append(r.tidList, k)
	return id
}

func isFloat(t types.Type) bool {
	b, ok := t.Underlying().(*types.Basic)
	return ok && b.Info()&types.IsFloat != 0
}
func isString(t types.Type) bool {
	b, ok := t.Underlying().(*types.Basic)
	return ok && b.Info()&types.IsString != 0
}
func isInteger(t types.Type) bool {
	b, ok := t.Underlying().(*types.Basic)
	return ok && b.Info()&types.IsInteger != 0
}
func isBoolean(t types.Type) bool {
	b, ok := t.Underlying().(*types.Basic)
	return ok && b.Info()&types.IsBoolean != 0
}

func isTypeParam(t types.Type) bool {
	_, ok := types.Unalias(t).(*types.TypeParam)
	return ok
}

// sortOf maps a Go type to its SMT sort, declaring datatypes on the way.
func (r *sortReg) sortOf(t types.Type) string {
	t = types.Unalias(t)
	if tp, ok := t.(*types.TypeParam); ok {
		n := "ys.TP." + tp.Obj().Name()
		r.decl(n, fmt.Sprintf("(declare-sort %s 0)", sym(n)))
		r.decl(n+".zero", fmt.Sprintf("(declare-const %s %s)", sym(n+".zero"), sym(n)))
		return sym(n)
	}
	switch u := t.Underlying().(type) {
	case *types.Basic:
		switch {
		case u.Info()&types.IsInteger != 0:
			return sInt
		case u.Info()&types.IsBoolean != 0:
			return sBool
		case u.Info()&types.IsString != 0:
			return sStr
		case u.Info()&types.IsFloat != 0:
			return sFloat
		case u.Kind() == types.UnsafePointer || u.Kind() == types.UntypedNil:
			return sInt
		}
		panic(unsupported("basic type " + u.String()))
	case *types.Pointer, *types.Map, *types.Chan, *types.Signature:
		return sInt
	case *types.Slice:
		return sSlice
	case *types.Interface:
		return sIface
	case *types.Array:
		return "(Array Int " + r.sortOf(u.Elem()) + ")"
	case *types.Struct:
		k := typeKey(t)
		if s, ok := r.structs[k]; ok {
			return s
		}
		name := sym("ys.S." + k)
		r.structs[k] = name
		var fs []string
		for i := 0; i < u.NumFields(); i++ {
			fs = append(fs, fmt.Sprintf("(%s %s)", structSel(k, u.Field(i).Name()), r.sortOf(u.Field(i).Type())))
		}
		if len(fs) == 0 {
			r.decl(name, fmt.Sprintf("(declare-datatypes ((%s 0)) (((%s))))", name, structCtor(k)))
		} else {
			r.decl(name, fmt.Sprintf("(declare-datatypes ((%s 0)) (((%s %s))))", name, structCtor(k), strings.Join(fs, " ")))
		}
		return name
	case *types.Tuple:
		panic(unsupported("tuple sort"))
	}
	panic(unsupported("type " + t.String()))
}

func structCtor(k string) string       { return sym("ys.mk." + k) }
func structSel(k, field string) string { return sym("ys.f." + k + "." + field) }

func (r *sortReg) zero(t types.Type) Term {
	t = types.Unalias(t)
	if tp, ok := t.(*types.TypeParam); ok {
		r.sortOf(t)
		return sym("ys.TP." + tp.Obj().Name() + ".zero")
	}
	switch u := t.Underlying().(type) {
	case *types.Basic:
		switch {
		case u.Info()&types.IsInteger != 0:
			return "0"
		case u.Info()&types.IsBoolean != 0:
			return "false"
		case u.Info()&types.IsString != 0:
			return `""`
		case u.Info()&types.IsFloat != 0:
			return "(_ +zero 11 53)"
		}
		return "0"
	case *types.Pointer, *types.Map, *types.Chan, *types.Signature:
		return "0"
	case *types.Slice:
		return "(ys.mkslice 0 0 0 0)"
	case *types.Interface:
		return "(ys.mkiface 0 0)"
	case *types.Array:
		return r.constArray(r.sortOf(u.Elem()), r.zero(u.Elem()))
	case *types.Struct:
		r.sortOf(t)
		k := typeKey(t)
		var fs []string
		for i := 0; i < u.NumFields(); i++ {
			fs = append(fs, r.zero(u.Field(i).Type()))
		}
		return app(structCtor(k), fs...)
	}
	panic(unsupported("zero of " + t.String()))
}

// eltFn: slice element access elt(content, off, i) = content[off+i], as a function symbol so that
// quantifier patterns over slice elements contain no arithmetic (solvers normalise arithmetic terms,
// which makes patterns with + unreliable).
func (r *sortReg) eltFn(elemSort string) string {
	n := sym("ys.elt." + sanitizeFile(elemSort))
	r.decl(n, fmt.Sprintf("(declare-fun %s ((Array Int %s) Int Int) %s)\n(assert (forall ((m (Array Int %s)) (o Int) (i Int)) (! (= (%s m o i) (select m (+ o i))) :pattern ((%s m o i)))))", n, elemSort, elemSort, elemSort, n, n))
	return n
}

// constArray: the array that maps every index to v. cvc5 accepts (as const ...) only for values,
// so for a non-value (the zero of a type parameter) a named array with a defining axiom is used.
func (r *sortReg) constArray(elemSort string, v Term) Term {
	if !strings.Contains(v, "ys.TP.") {
		return fmt.Sprintf("((as const (Array Int %s)) %s)", elemSort, v)
	}
	n := sym("ys.zeroarr." + sanitizeFile(elemSort))
	r.decl(n, fmt.Sprintf("(declare-const %s (Array Int %s))\n(assert (forall ((k Int)) (! (= (select %s k) %s) :pattern ((select %s k)))))", n, elemSort, n, v, n))
	return n
}

// specSort maps a spec type to an SMT sort.
func (r *sortReg) specSort(t *SType) string {
	switch t.Kind {
	case "go":
		return r.sortOf(t.Go)
	case "seq":
		return r.seqSort(r.specSort(t.Elem))
	case "set":
		return "(Array " + r.specSort(t.Elem) + " Bool)"
	case "map":
		return "(Array " + r.specSort(t.Key) + " " + r.specSort(t.Elem) + ")"
	case "data", "abstract":
		return sym("ys.D." + t.Name)
	case "real":
		return "Real"
	}
	panic(unsupported("spec sort " + t.String()))
}

// seqSort declares the algebraic sequence theory for one element sort (DESIGN 3.3).
func (r *sortReg) seqSort(elem string) string {
	id := sanitizeFile(elem)
	s := sym("ys.Seq." + id)
	if r.seqs[s] {
		return s
	}
	r.seqs[s] = true
	elt := r.eltFn(elem) // declared first: the view of an array segment is stated through it
	p := "ys.seq." + id + "."
	f := func(n string) string { return sym(p + n) }
	var d []string
	d = append(d, fmt.Sprintf("(declare-sort %s 0)", s))
	d = append(d, fmt.Sprintf("(declare-fun %s (%s) Int)", f("len"), s))
	d = append(d, fmt.Sprintf("(declare-fun %s (%s Int) %s)", f("at"), s, elem))
	d = append(d, fmt.Sprintf("(declare-const %s %s)", f("empty"), s))
	d = append(d, fmt.Sprintf("(declare-fun %s (%s %s) %s)", f("snoc"), s, elem, s))
	d = append(d, fmt.Sprintf("(declare-fun %s (%s %s) %s)", f("app"), s, s, s))
	d = append(d, fmt.Sprintf("(declare-fun %s (%s Int) %s)", f("drop"), s, s))
	d = append(d, fmt.Sprintf("(declare-fun %s (%s Int) %s)", f("take"), s, s))
	d = append(d, fmt.Sprintf("(declare-fun %s ((Array Int %s) Int Int) %s)", f("ofarr"), elem, s))
	d = append(d, fmt.Sprintf("(declare-fun %s (%s %s) Bool)", f("eq"), s, s))
	d = append(d, fmt.Sprintf("(declare-fun %s (%s %s) Int)", f("sk"), s, s))
	ax := func(vars, pat, body string) {
		d = append(d, fmt.Sprintf("(assert (forall (%s) (! %s :pattern (%s))))", vars, body, pat))
	}
	a, b := "(a "+s+")", "(b "+s+")"
	ax(a, app(f("len"), "a"), "(>= "+app(f("len"), "a")+" 0)")
	d = append(d, fmt.Sprintf("(assert (= (%s %s) 0))", f("len"), f("empty")))
	ax(a, app(f("len"), "a"), fmt.Sprintf("(=> (= (%s a) 0) (= a %s))", f("len"), f("empty")))
	// snoc
	ax(a+" (x "+elem+")", app(f("snoc"), "a", "x"), fmt.Sprintf("(and (= (%s (%s a x)) (+ (%s a) 1)) (= (%s (%s a x) (%s a)) x))", f("len"), f("snoc"), f("len"), f("at"), f("snoc"), f("len")))
	ax(a+" (x "+elem+") (k Int)", app(f("at"), app(f("snoc"), "a", "x"), "k"), fmt.Sprintf("(=> (and (<= 0 k) (< k (%s a))) (= (%s (%s a x) k) (%s a k)))", f("len"), f("at"), f("snoc"), f("at")))
	// app
	ax(a+" "+b, app(f("app"), "a", "b"), fmt.Sprintf("(= (%s (%s a b)) (+ (%s a) (%s b)))", f("len"), f("app"), f("len"), f("len")))
	ax(b, app(f("app"), f("empty"), "b"), fmt.Sprintf("(= (%s %s b) b)", f("app"), f("empty")))
	ax(a, app(f("app"), "a", f("empty")), fmt.Sprintf("(= (%s a %s) a)", f("app"), f("empty")))
	ax(a+" "+b+" (k Int)", app(f("at"), app(f("app"), "a", "b"), "k"), fmt.Sprintf("(and (=> (and (<= 0 k) (< k (%s a))) (= (%s (%s a b) k) (%s a k))) (=> (and (<= (%s a) k) (< k (+ (%s a) (%s b)))) (= (%s (%s a b) k) (%s b (- k (%s a))))))", f("len"), f("at"), f("app"), f("at"), f("len"), f("len"), f("len"), f("at"), f("app"), f("at"), f("len")))
	// drop
	ax(a+" (k Int)", app(f("drop"), "a", "k"), fmt.Sprintf("(=> (and (<= 0 k) (<= k (%s a))) (= (%s (%s a k)) (- (%s a) k)))", f("len"), f("len"), f("drop"), f("len")))
	ax(a, app(f("drop"), "a", "0"), fmt.Sprintf("(= (%s a 0) a)", f("drop")))
	ax(a+" (k Int) (j Int)", app(f("at"), app(f("drop"), "a", "k"), "j"), fmt.Sprintf("(=> (and (<= 0 k) (<= 0 j) (< (+ k j) (%s a))) (= (%s (%s a k) j) (%s a (+ k j))))", f("len"), f("at"), f("drop"), f("at")))
	ax(a+" "+b+" (k Int)", app(f("drop"), app(f("app"), "a", "b"), "k"), fmt.Sprintf("(and (=> (and (<= 0 k) (<= k (%s a))) (= (%s (%s a b) k) (%s (%s a k) b))) (=> (= k (%s a)) (= (%s (%s a b) k) b)))", f("len"), f("drop"), f("app"), f("app"), f("drop"), f("len"), f("drop"), f("app")))
	ax(a+" (k Int) (j Int)", app(f("drop"), app(f("drop"), "a", "j"), "k"), fmt.Sprintf("(=> (and (<= 0 j) (<= 0 k) (<= (+ j k) (%s a))) (= (%s (%s a j) k) (%s a (+ j k))))", f("len"), f("drop"), f("drop"), f("drop")))
	// take
	ax(a+" (k Int)", app(f("take"), "a", "k"), fmt.Sprintf("(=> (and (<= 0 k) (<= k (%s a))) (= (%s (%s a k)) k))", f("len"), f("len"), f("take")))
	ax(a+" (k Int) (j Int)", app(f("at"), app(f("take"), "a", "k"), "j"), fmt.Sprintf("(=> (and (<= 0 j) (< j k) (<= k (%s a))) (= (%s (%s a k) j) (%s a j)))", f("len"), f("at"), f("take"), f("at")))
	// view of a slice / array segment
	arr := "(m (Array Int " + elem + ")) (o Int) (n Int)"
	ax(arr, app(f("ofarr"), "m", "o", "n"), fmt.Sprintf("(=> (>= n 0) (= (%s (%s m o n)) n))", f("len"), f("ofarr")))
	ax(arr+" (k Int)", app(f("at"), app(f("ofarr"), "m", "o", "n"), "k"), fmt.Sprintf("(=> (and (<= 0 k) (< k n)) (= (%s (%s m o n) k) (%s m o k)))", f("at"), f("ofarr"), elt))
	ax(arr+" (k Int)", app(f("drop"), app(f("ofarr"), "m", "o", "n"), "k"), fmt.Sprintf("(=> (and (<= 0 k) (<= k n)) (= (%s (%s m o n) k) (%s m (+ o k) (- n k))))", f("drop"), f("ofarr"), f("ofarr")))
	// guarded extensionality
	ax(a+" "+b, app(f("eq"), "a", "b"), fmt.Sprintf("(= (%s a b) (= a b))", f("eq")))
	ax(a+" "+b, app(f("eq"), "a", "b"), fmt.Sprintf("(=> (and (= (%s a) (%s b)) (=> (and (<= 0 (%s a b)) (< (%s a b) (%s a))) (= (%s a (%s a b)) (%s b (%s a b))))) (= a b))", f("len"), f("len"), f("sk"), f("sk"), f("len"), f("at"), f("sk"), f("at"), f("sk")))
	r.decl(s, strings.Join(d, "\n"))
	return s
}

func seqFn(seqSort, name string) string {
	id := strings.TrimPrefix(strings.Trim(seqSort, "|"), "ys.Seq.")
	return sym("ys.seq." + id + "." + name)
}

type unsupportedErr struct{ what string }

func unsupported(s string) unsupportedErr { return unsupportedErr{s} }
func (u unsupportedErr) Error() string    { return "outside the subset: " + u.what }
