package main

// AST of the contract language (see DESIGN.md Appendix A). Contracts are written as //@ comment
// lines in guarded, comment-only files contracts_verif.go in /repo, and as plain text in
// /verif/spec/*.spec (shared specifications and contracts of external functions).

type Pos struct {
	File string
	Line int
}

type Expr interface{ pos() Pos }

type (
	EIdent struct {
		P    Pos
		Name string
	}
	EInt struct {
		P Pos
		V string
	}
	EFloat struct {
		P Pos
		V string
	}
	EStr struct {
		P Pos
		V string
	}
	EBool struct {
		P Pos
		V bool
	}
	ENil   struct{ P Pos }
	EUnary struct {
		P  Pos
		Op string
		X  Expr
	}
	EBinary struct {
		P    Pos
		Op   string
		L, R Expr
	}
	ECond struct {
		P       Pos
		C, A, B Expr
	}
	ECall struct {
		P     Pos
		Fun   Expr
		Args  []Expr
		TArgs []*TypeExpr // for typeof(x) == T style helpers: istype(x, T), zero(T)
	}
	ESel struct {
		P    Pos
		X    Expr
		Name string
	}
	EIndex struct {
		P    Pos
		X, I Expr
	}
	ESlice struct {
		P         Pos
		X, Lo, Hi Expr
	}
	EQuant struct {
		P        Pos
		Forall   bool
		Vars     []Param
		Triggers [][]Expr
		Body     Expr
	}
	ELet struct {
		P    Pos
		Name string
		Val  Expr
		Body Expr
	}
	ESeqLit struct {
		P     Pos
		Elem  *TypeExpr
		Elems []Expr
	}
	// ECtor: datatype constructor application or struct update: handled through ECall.
)

func (e *EIdent) pos() Pos  { return e.P }
func (e *EInt) pos() Pos    { return e.P }
func (e *EFloat) pos() Pos  { return e.P }
func (e *EStr) pos() Pos    { return e.P }
func (e *EBool) pos() Pos   { return e.P }
func (e *ENil) pos() Pos    { return e.P }
func (e *EUnary) pos() Pos  { return e.P }
func (e *EBinary) pos() Pos { return e.P }
func (e *ECond) pos() Pos   { return e.P }
func (e *ECall) pos() Pos   { return e.P }
func (e *ESel) pos() Pos    { return e.P }
func (e *EIndex) pos() Pos  { return e.P }
func (e *ESlice) pos() Pos  { return e.P }
func (e *EQuant) pos() Pos  { return e.P }
func (e *ELet) pos() Pos    { return e.P }
func (e *ESeqLit) pos() Pos { return e.P }

// TypeExpr is a type as written in a contract.
type TypeExpr struct {
	Kind string // "name", "ptr", "slice", "map", "seq", "set", "chan", "func", "array"
	Pkg  string
	Name string
	Elem *TypeExpr
	Key  *TypeExpr
	Args []*TypeExpr
}

func (t *TypeExpr) String() string {
	if t == nil {
		return "<nil>"
	}
	switch t.Kind {
	case "name":
		s := t.Name
		if t.Pkg != "" {
			s = t.Pkg + "." + s
		}
		if len(t.Args) > 0 {
			s += "["
			for i, a := range t.Args {
				if i > 0 {
					s += ","
				}
				s += a.String()
			}
			s += "]"
		}
		return s
	case "ptr":
		return "*" + t.Elem.String()
	case "slice":
		return "[]" + t.Elem.String()
	case "map":
		return "map[" + t.Key.String() + "]" + t.Elem.String()
	case "seq":
		return "seq[" + t.Elem.String() + "]"
	case "set":
		return "set[" + t.Elem.String() + "]"
	case "chan":
		return "chan " + t.Elem.String()
	case "func":
		return "func"
	}
	return "?"
}

type Param struct {
	Name string
	Type *TypeExpr
}

type Clause struct {
	P     Pos
	Kind  string // requires ensures modifies invariant decreases assert arith float effects track_init carveout ghost
	Label string
	E     Expr
	Mods  []Expr // modifies lvalues
	Loop  int    // loop ordinal for invariant/decreases; -1 otherwise
	Str   string // mode words
	// ghost statements
	Anchor string // entry | exit | before-call | after-call | loop
	Callee string
	CallK  int
	Stmts  []GhostStmt
	Words  []string
	Type   *TypeExpr // ghostlocal
}

type GhostStmt struct {
	P   Pos
	LHS Expr // ghost lvalue; nil for assume/assert
	RHS Expr
	// Kind: "assign", "assume", "assert"
	Kind  string
	Label string
}

type Decl struct {
	P       Pos
	Kind    string // ghostfield ghostvar pure pred extern axiom datatype type func closure interface functype external lemma global immutable
	Pkg     string // package name in whose contract file the decl occurs ("" for shared spec)
	Recv    *Param
	Name    string // function / field / type name
	TypeN   string // for ghostfield: struct type name; interface/functype: type name
	Params  []Param
	Results []Param
	RetType *TypeExpr
	Body    Expr
	Clauses []*Clause
	Ctors   []Ctor // datatype
	Closure []int  // closure path: F$1$2
	Opaque  bool   // pure func kept as uninterpreted function with definitional axiom
	Rec     bool
	Words   []string
}

type Ctor struct {
	Name   string
	Fields []Param
}
