package main

import (
	"fmt"
	"strings"
	"unicode"
)

type tok struct {
	kind string // id int float str op eof
	s    string
	p    Pos
}

func lexSpec(file string, lines []srcLine) ([]tok, error) {
	var toks []tok
	for _, sl := range lines {
		s := sl.text
		p := Pos{file, sl.line}
		i := 0
		for i < len(s) {
			c := s[i]
			switch {
			case c == ' ' || c == '\t' || c == '\r':
				i++
			case c == '/' && i+1 < len(s) && s[i+1] == '/':
				i = len(s)
			case unicode.IsLetter(rune(c)) || c == '_':
				j := i
				for j < len(s) && (unicode.IsLetter(rune(s[j])) || unicode.IsDigit(rune(s[j])) || s[j] == '_') {
					j++
				}
				toks = append(toks, tok{"id", s[i:j], p})
				i = j
			case c >= '0' && c <= '9':
				j := i
				isf := false
				for j < len(s) && (s[j] >= '0' && s[j] <= '9' || s[j] == '_') {
					j++
				}
				if j+1 < len(s) && s[j] == '.' && s[j+1] >= '0' && s[j+1] <= '9' {
					isf = true
					j++
					for j < len(s) && s[j] >= '0' && s[j] <= '9' {
						j++
					}
				}
				if j < len(s) && (s[j] == 'e' || s[j] == 'E') {
					k := j + 1
					if k < len(s) && (s[k] == '+' || s[k] == '-') {
						k++
					}
					if k < len(s) && s[k] >= '0' && s[k] <= '9' {
						isf = true
						for k < len(s) && s[k] >= '0' && s[k] <= '9' {
							k++
						}
						j = k
					}
				}
				if isf {
					toks = append(toks, tok{"float", s[i:j], p})
				} else {
					toks = append(toks, tok{"int", strings.ReplaceAll(s[i:j], "_", ""), p})
				}
				i = j
			case c == '"':
				j := i + 1
				var sb strings.Builder
				for j < len(s) && s[j] != '"' {
					if s[j] == '\\' && j+1 < len(s) {
						j++
						switch s[j] {
						case 'n':
							sb.WriteByte('\n')
						case 't':
							sb.WriteByte('\t')
						case 'r':
							sb.WriteByte('\r')
						default:
							sb.WriteByte(s[j])
						}
						j++
						continue
					}
					sb.WriteByte(s[j])
					j++
				}
				if j >= len(s) {
					return nil, fmt.Errorf("%s:%d: unterminated string", file, sl.line)
				}
				toks = append(toks, tok{"str", sb.String(), p})
				i = j + 1
			case c == '\'':
				// rune literal
				j := i + 1
				var r rune
				if j < len(s) && s[j] == '\\' && j+1 < len(s) {
					switch s[j+1] {
					case 'n':
						r = '\n'
					case 't':
						r = '\t'
					case 'r':
						r = '\r'
					default:
						r = rune(s[j+1])
					}
					j += 2
				} else {
					rs := []rune(s[j:])
					r = rs[0]
					j += len(string(r))
				}
				if j >= len(s) || s[j] != '\'' {
					return nil, fmt.Errorf("%s:%d: bad rune literal", file, sl.line)
				}
				toks = append(toks, tok{"int", fmt.Sprint(int(r)), p})
				i = j + 1
			default:
				ops := []string{"<==>", "==>", "::", ":=", "==", "!=", "<=", ">=", "&&", "||", "++"}
				matched := false
				for _, op := range ops {
					if strings.HasPrefix(s[i:], op) {
						toks = append(toks, tok{"op", op, p})
						i += len(op)
						matched = true
						break
					}
				}
				if !matched {
					if strings.ContainsRune("()[]{},.:;?+-*/%!<>=$#@&|", rune(c)) {
						toks = append(toks, tok{"op", string(c), p})
						i++
					} else {
						return nil, fmt.Errorf("%s:%d: unexpected character %q", file, sl.line, c)
					}
				}
			}
		}
	}
	toks = append(toks, tok{"eof", "", Pos{file, 0}})
	return toks, nil
}

type srcLine struct {
	text string
	line int
}

type parser struct {
	toks []tok
	i    int
	pkg  string
	noIn int // >0 while parsing the value of a let: "in" then ends the value
}

type parseErr struct{ msg string }

func (p *parser) fail(format string, a ...any) {
	t := p.peek()
	panic(parseErr{fmt.Sprintf("%s:%d: %s (at %q)", t.p.File, t.p.Line, fmt.Sprintf(format, a...), t.s)})
}

func (p *parser) peek() tok { return p.toks[p.i] }
func (p *parser) peekN(n int) tok {
	if p.i+n < len(p.toks) {
		return p.toks[p.i+n]
	}
	return p.toks[len(p.toks)-1]
}
func (p *parser) next() tok { t := p.toks[p.i]; p.i++; return t }
func (p *parser) isOp(s string) bool {
	t := p.peek()
	return t.kind == "op" && t.s == s
}
func (p *parser) isID(s string) bool {
	t := p.peek()
	return t.kind == "id" && t.s == s
}
func (p *parser) accept(s string) bool {
	t := p.peek()
	if (t.kind == "op" || t.kind == "id") && t.s == s {
		p.i++
		return true
	}
	return false
}
func (p *parser) expect(s string) {
	if !p.accept(s) {
		p.fail("expected %q", s)
	}
}
func (p *parser) ident() string {
	t := p.peek()
	if t.kind != "id" {
		p.fail("expected identifier")
	}
	p.i++
	return t.s
}

var declKeywords = map[string]bool{"ghost": true, "pure": true, "pred": true, "extern": true, "axiom": true, "datatype": true,
	"type": true, "func": true, "closure": true, "interface": true, "functype": true, "external": true, "lemma": true, "global": true,
	"immutable": true, "opaque": true}
var clauseKeywords = map[string]bool{"requires": true, "ensures": true, "modifies": true, "loop": true, "ghost": true, "assert": true,
	"arith": true, "float": true, "effects": true, "track_init": true, "carveout": true, "decreases": true, "invariant": true,
	"trusted": true, "replay": true, "tracks": true, "ghostlocal": true, "strings": true, "assume": true, "allocates": true, "havoc": true, "nopanic": true, "panics": true, "unreachable": true, "entry_objects_exist": true}

func parseSpecFile(file, pkg string, lines []srcLine) (decls []*Decl, err error) {
	toks, err := lexSpec(file, lines)
	if err != nil {
		return nil, err
	}
	p := &parser{toks: toks, pkg: pkg}
	defer func() {
		if r := recover(); r != nil {
			if pe, ok := r.(parseErr); ok {
				err = fmt.Errorf("%s", pe.msg)
				return
			}
			panic(r)
		}
	}()
	for p.peek().kind != "eof" {
		decls = append(decls, p.decl())
	}
	return decls, nil
}

func (p *parser) decl() *Decl {
	t := p.peek()
	d := &Decl{P: t.p, Pkg: p.pkg}
	switch {
	case p.accept("ghost"):
		if p.accept("field") {
			d.Kind = "ghostfield"
			parts := []string{p.ident()}
			for p.accept(".") {
				parts = append(parts, p.ident())
			}
			if len(parts) == 3 { // pkg.Type.field (used in shared spec files)
				d.Pkg = parts[0]
				parts = parts[1:]
			}
			if len(parts) != 2 {
				p.fail("ghost field needs [pkg.]Type.field")
			}
			d.TypeN, d.Name = parts[0], parts[1]
			d.RetType = p.typeExpr()
		} else if p.accept("var") {
			d.Kind = "ghostvar"
			d.Name = p.ident()
			d.RetType = p.typeExpr()
		} else {
			p.fail("expected field or var after ghost")
		}
	case p.isID("pure") || p.isID("pred") || p.isID("opaque"):
		if p.accept("opaque") {
			d.Opaque = true
		}
		if p.accept("pred") {
			d.Kind = "pure"
			d.RetType = &TypeExpr{Kind: "name", Name: "bool"}
			d.Recv = p.optRecv()
			d.Name = p.ident()
			d.Params = p.params()
			p.expect("{")
			d.Body = p.expr()
			p.expect("}")
		} else {
			p.expect("pure")
			p.expect("func")
			d.Kind = "pure"
			d.Recv = p.optRecv()
			d.Name = p.ident()
			d.Params = p.params()
			d.RetType = p.typeExpr()
			p.expect("{")
			p.accept("return")
			d.Body = p.expr()
			p.expect("}")
		}
	case p.accept("extern"):
		p.expect("func")
		d.Kind = "extern"
		d.Name = p.ident()
		d.Params = p.params()
		d.RetType = p.typeExpr()
	case p.accept("axiom"):
		d.Kind = "axiom"
		if p.peek().kind == "str" {
			d.Name = p.next().s
			p.expect(":")
		}
		d.Body = p.expr()
	case p.accept("lemma"):
		d.Kind = "lemma"
		d.Name = p.ident()
		d.Params = p.params()
		d.Clauses = p.clauses()
	case p.accept("datatype"):
		d.Kind = "datatype"
		d.Name = p.ident()
		p.expect("=")
		for {
			c := Ctor{Name: p.ident()}
			if p.isOp("(") {
				c.Fields = p.params()
			}
			d.Ctors = append(d.Ctors, c)
			if !p.accept("|") {
				break
			}
		}
	case p.accept("type"):
		d.Kind = "type"
		d.Name = p.ident()
	case p.accept("global"):
		d.Kind = "global"
		d.Name = p.qualified()
		for p.peek().kind == "id" && !declKeywords[p.peek().s] {
			d.Words = append(d.Words, p.next().s)
		}
	case p.accept("immutable"):
		d.Kind = "immutable"
		d.TypeN = p.qualified()
	case p.accept("func"):
		d.Kind = "func"
		d.Recv = p.optRecv()
		d.Name = p.ident()
		d.Params = p.params()
		d.Results = p.results()
		d.Clauses = p.clauses()
	case p.accept("closure"):
		d.Kind = "closure"
		d.Recv = p.optRecv()
		d.Name = p.ident()
		for p.accept("$") {
			t := p.next()
			if t.kind != "int" {
				p.fail("expected closure ordinal")
			}
			n := 0
			fmt.Sscan(t.s, &n)
			d.Closure = append(d.Closure, n)
		}
		d.Params = p.params()
		d.Results = p.results()
		d.Clauses = p.clauses()
	case p.accept("interface"):
		d.Kind = "interface"
		d.TypeN = p.qualified()
		// last component is the method
		k := strings.LastIndex(d.TypeN, ".")
		d.Name = d.TypeN[k+1:]
		d.TypeN = d.TypeN[:k]
		d.Params = p.params()
		d.Results = p.results()
		d.Clauses = p.clauses()
	case p.accept("functype"):
		d.Kind = "functype"
		d.TypeN = p.qualified()
		d.Params = p.params()
		d.Results = p.results()
		d.Clauses = p.clauses()
	case p.accept("external"):
		d.Kind = "external"
		t := p.next()
		if t.kind != "str" {
			p.fail("external needs the function's full name as a string")
		}
		d.Name = t.s
		d.Params = p.params()
		d.Results = p.results()
		d.Clauses = p.clauses()
	default:
		p.fail("expected a declaration")
	}
	return d
}

func (p *parser) qualified() string {
	s := p.ident()
	for p.accept(".") {
		s += "." + p.ident()
	}
	return s
}

func (p *parser) optRecv() *Param {
	if !p.isOp("(") {
		return nil
	}
	p.expect("(")
	name := p.ident()
	t := p.typeExpr()
	p.expect(")")
	return &Param{name, t}
}

// params parses "(a, b T, c U)" with Go-style grouping; types are optional ("(a, b)").
func (p *parser) params() []Param {
	p.expect("(")
	var out []Param
	var pending []string
	for !p.isOp(")") {
		name := p.ident()
		pending = append(pending, name)
		if p.accept(",") {
			continue
		}
		if p.isOp(")") {
			break
		}
		t := p.typeExpr()
		for _, n := range pending {
			out = append(out, Param{n, t})
		}
		pending = nil
		if !p.accept(",") {
			break
		}
	}
	for _, n := range pending {
		out = append(out, Param{n, nil})
	}
	p.expect(")")
	return out
}

func (p *parser) results() []Param {
	if p.isOp("(") {
		return p.params()
	}
	return nil
}

func (p *parser) typeExpr() *TypeExpr {
	switch {
	case p.accept("*"):
		return &TypeExpr{Kind: "ptr", Elem: p.typeExpr()}
	case p.isOp("[") && p.peekN(1).kind == "op" && p.peekN(1).s == "]":
		p.next()
		p.next()
		return &TypeExpr{Kind: "slice", Elem: p.typeExpr()}
	case p.isOp("<") && p.peekN(1).s == "-" && p.peekN(2).s == "chan":
		p.next()
		p.next()
		p.next()
		return &TypeExpr{Kind: "chan", Elem: p.typeExpr()}
	case p.isID("chan"):
		p.next()
		return &TypeExpr{Kind: "chan", Elem: p.typeExpr()}
	case p.isID("map"):
		p.next()
		p.expect("[")
		k := p.typeExpr()
		p.expect("]")
		return &TypeExpr{Kind: "map", Key: k, Elem: p.typeExpr()}
	case p.isID("seq") && p.peekN(1).s == "[":
		p.next()
		p.expect("[")
		e := p.typeExpr()
		p.expect("]")
		return &TypeExpr{Kind: "seq", Elem: e}
	case p.isID("set") && p.peekN(1).s == "[":
		p.next()
		p.expect("[")
		e := p.typeExpr()
		p.expect("]")
		return &TypeExpr{Kind: "set", Elem: e}
	case p.isID("func"):
		p.next()
		// skip signature
		depth := 0
		for {
			t := p.next()
			if t.s == "(" {
				depth++
			} else if t.s == ")" {
				depth--
				if depth == 0 {
					break
				}
			}
		}
		return &TypeExpr{Kind: "func"}
	}
	t := &TypeExpr{Kind: "name"}
	t.Name = p.ident()
	if p.isOp(".") && p.peekN(1).kind == "id" {
		p.next()
		t.Pkg = t.Name
		t.Name = p.ident()
	}
	if p.isOp("[") && !(p.peekN(1).kind == "op" && p.peekN(1).s == "]") {
		p.next()
		for {
			t.Args = append(t.Args, p.typeExpr())
			if !p.accept(",") {
				break
			}
		}
		p.expect("]")
	}
	return t
}

func (p *parser) optLabel() string {
	if p.peek().kind == "str" && p.peekN(1).kind == "op" && p.peekN(1).s == ":" {
		l := p.next().s
		p.next()
		return l
	}
	return ""
}

func (p *parser) clauses() []*Clause {
	var out []*Clause
	for {
		t := p.peek()
		if t.kind != "id" || !clauseKeywords[t.s] {
			return out
		}
		// "ghost field"/"ghost var" start a new declaration
		if t.s == "ghost" && (p.peekN(1).s == "field" || p.peekN(1).s == "var") {
			return out
		}
		c := &Clause{P: t.p, Loop: -1}
		p.next()
		switch t.s {
		case "requires", "ensures", "assume", "panics":
			c.Kind = t.s
			c.Label = p.optLabel()
			c.E = p.expr()
		case "modifies", "track_init", "havoc", "tracks":
			c.Kind = t.s
			for {
				c.Mods = append(c.Mods, p.expr())
				if !p.accept(",") {
					break
				}
			}
		case "loop":
			nt := p.next()
			if nt.kind != "int" {
				p.fail("expected loop ordinal")
			}
			fmt.Sscan(nt.s, &c.Loop)
			p.expect(":")
			for p.isID("invariant") || p.isID("decreases") || p.isID("modifies") {
				k := p.next()
				cc := &Clause{P: k.p, Loop: c.Loop, Kind: k.s}
				if k.s == "invariant" {
					cc.Label = p.optLabel()
				}
				if k.s == "modifies" {
					cc.Kind = "loopmodifies"
					for {
						cc.Mods = append(cc.Mods, p.expr())
						if !p.accept(",") {
							break
						}
					}
				} else {
					cc.E = p.expr()
				}
				p.accept(";")
				out = append(out, cc)
			}
			continue
		case "ghost":
			c.Kind = "ghost"
			switch {
			case p.accept("entry"):
				c.Anchor = "entry"
			case p.accept("exit"):
				c.Anchor = "exit"
			case p.accept("before"), p.accept("after"):
				c.Anchor = p.toks[p.i-1].s + "-call"
				p.expect("call")
				c.Callee, c.CallK = p.calleeRef()
			case p.accept("loop"):
				c.Anchor = "loop"
				nt := p.next()
				fmt.Sscan(nt.s, &c.Loop)
			default:
				p.fail("bad ghost anchor")
			}
			p.expect("{")
			for !p.isOp("}") {
				c.Stmts = append(c.Stmts, p.ghostStmt())
				p.accept(";")
			}
			p.expect("}")
		case "assert":
			c.Kind = "assert"
			c.Label = p.optLabel()
			p.expect("at")
			p.expect("call")
			c.Callee, c.CallK = p.calleeRef()
			p.expect(":")
			c.E = p.expr()
		case "arith", "float", "strings":
			c.Kind = t.s
			c.Str = p.ident()
		case "effects", "allocates":
			c.Kind = t.s
			for p.peek().kind == "id" && !clauseKeywords[p.peek().s] && !declKeywords[p.peek().s] {
				c.Words = append(c.Words, p.next().s)
				if !p.accept(",") {
					break
				}
			}
		case "unreachable":
			c.Kind = t.s
			if p.peek().kind == "str" {
				c.Label = p.next().s
			}
		case "trusted", "nopanic", "entry_objects_exist":
			c.Kind = t.s
		case "ghostlocal":
			c.Kind = "ghostlocal"
			c.Str = p.ident()
			c.Type = p.typeExpr()
		case "carveout":
			c.Kind = "carveout"
			c.Label = p.optLabel()
			c.E = p.expr()
		case "replay":
			c.Kind = "replay"
			p.expect("adapter")
			c.Str = p.ident()
		case "decreases", "invariant":
			p.fail("%s must follow 'loop k:'", t.s)
		}
		out = append(out, c)
	}
}

func (p *parser) calleeRef() (string, int) {
	var name string
	if p.peek().kind == "str" {
		name = p.next().s
	} else {
		name = p.qualified()
	}
	k := 0
	if p.accept("#") {
		nt := p.next()
		fmt.Sscan(nt.s, &k)
	}
	return name, k
}

func (p *parser) ghostStmt() GhostStmt {
	t := p.peek()
	if p.accept("assume") {
		return GhostStmt{P: t.p, Kind: "assume", RHS: p.expr()}
	}
	if p.accept("assert") {
		l := p.optLabel()
		return GhostStmt{P: t.p, Kind: "assert", Label: l, RHS: p.expr()}
	}
	lhs := p.unary()
	p.expect("=")
	return GhostStmt{P: t.p, Kind: "assign", LHS: lhs, RHS: p.expr()}
}

// ---- expressions ----

func (p *parser) expr() Expr { return p.iff() }

func (p *parser) iff() Expr {
	l := p.implies()
	for p.isOp("<==>") {
		t := p.next()
		r := p.implies()
		l = &EBinary{t.p, "<==>", l, r}
	}
	return l
}

func (p *parser) implies() Expr {
	l := p.cond()
	if p.isOp("==>") {
		t := p.next()
		r := p.implies()
		return &EBinary{t.p, "==>", l, r}
	}
	return l
}

func (p *parser) cond() Expr {
	c := p.or()
	if p.isOp("?") {
		t := p.next()
		a := p.cond()
		p.expect(":")
		b := p.cond()
		return &ECond{t.p, c, a, b}
	}
	return c
}

func (p *parser) or() Expr {
	l := p.and()
	for p.isOp("||") {
		t := p.next()
		l = &EBinary{t.p, "||", l, p.and()}
	}
	return l
}

func (p *parser) and() Expr {
	l := p.cmp()
	for p.isOp("&&") {
		t := p.next()
		l = &EBinary{t.p, "&&", l, p.cmp()}
	}
	return l
}

func (p *parser) cmp() Expr {
	l := p.add()
	for {
		t := p.peek()
		if t.kind == "op" && (t.s == "==" || t.s == "!=" || t.s == "<" || t.s == "<=" || t.s == ">" || t.s == ">=") {
			p.next()
			l = &EBinary{t.p, t.s, l, p.add()}
		} else if t.kind == "id" && t.s == "in" && p.noIn == 0 {
			p.next()
			l = &EBinary{t.p, "in", l, p.add()}
		} else {
			return l
		}
	}
}

func (p *parser) add() Expr {
	l := p.mul()
	for p.isOp("+") || p.isOp("-") || p.isOp("++") {
		t := p.next()
		l = &EBinary{t.p, t.s, l, p.mul()}
	}
	return l
}

func (p *parser) mul() Expr {
	l := p.unary()
	for p.isOp("*") || p.isOp("/") || p.isOp("%") {
		t := p.next()
		l = &EBinary{t.p, t.s, l, p.unary()}
	}
	return l
}

func (p *parser) unary() Expr {
	t := p.peek()
	if p.isOp("!") || p.isOp("-") || p.isOp("*") || p.isOp("&") {
		p.next()
		return &EUnary{t.p, t.s, p.unary()}
	}
	return p.postfix()
}

func (p *parser) postfix() Expr {
	e := p.primary()
	for {
		t := p.peek()
		switch {
		case p.isOp("."):
			p.next()
			if p.accept("(") { // type assertion x.(T): not supported, parse as call istype
				p.fail("type assertions are written istype(x, T)")
			}
			e = &ESel{t.p, e, p.ident()}
		case p.isOp("("):
			p.next()
			c := &ECall{P: t.p, Fun: e}
			// helpers taking a type argument
			if id, ok := e.(*EIdent); ok && (id.Name == "istype" || id.Name == "zero" || id.Name == "typeid" || id.Name == "unbox" || id.Name == "box" || id.Name == "iface") {
				if id.Name == "zero" || id.Name == "typeid" {
					c.TArgs = append(c.TArgs, p.typeExpr())
				} else {
					c.Args = append(c.Args, p.expr())
					p.expect(",")
					c.TArgs = append(c.TArgs, p.typeExpr())
				}
				p.expect(")")
				e = c
				continue
			}
			for !p.isOp(")") {
				c.Args = append(c.Args, p.expr())
				if !p.accept(",") {
					break
				}
			}
			p.expect(")")
			e = c
		case p.isOp("["):
			p.next()
			var lo, hi Expr
			if p.isOp(":") {
				p.next()
				if !p.isOp("]") {
					hi = p.expr()
				}
				p.expect("]")
				e = &ESlice{t.p, e, nil, hi}
				continue
			}
			lo = p.expr()
			if p.accept(":") {
				if !p.isOp("]") {
					hi = p.expr()
				}
				p.expect("]")
				e = &ESlice{t.p, e, lo, hi}
				continue
			}
			p.expect("]")
			e = &EIndex{t.p, e, lo}
		default:
			return e
		}
	}
}

func (p *parser) primary() Expr {
	t := p.peek()
	switch t.kind {
	case "int":
		p.next()
		return &EInt{t.p, t.s}
	case "float":
		p.next()
		return &EFloat{t.p, t.s}
	case "str":
		p.next()
		return &EStr{t.p, t.s}
	case "op":
		if t.s == "(" {
			p.next()
			save := p.noIn
			p.noIn = 0
			e := p.expr()
			p.noIn = save
			p.expect(")")
			return e
		}
	case "id":
		switch t.s {
		case "true", "false":
			p.next()
			return &EBool{t.p, t.s == "true"}
		case "nil":
			p.next()
			return &ENil{t.p}
		case "forall", "exists":
			p.next()
			q := &EQuant{P: t.p, Forall: t.s == "forall"}
			for {
				n := p.ident()
				ty := p.typeExpr()
				q.Vars = append(q.Vars, Param{n, ty})
				if !p.accept(",") {
					break
				}
			}
			p.expect("::")
			for p.isOp("{") {
				p.next()
				var tr []Expr
				for !p.isOp("}") {
					tr = append(tr, p.expr())
					if !p.accept(",") {
						break
					}
				}
				p.expect("}")
				q.Triggers = append(q.Triggers, tr)
			}
			q.Body = p.expr()
			return q
		case "let":
			p.next()
			n := p.ident()
			p.expect("=")
			p.noIn++
			v := p.expr()
			p.noIn--
			p.expect("in")
			b := p.expr()
			return &ELet{t.p, n, v, b}
		case "seq":
			if p.peekN(1).s == "[" {
				// seq[T]{...} literal
				save := p.i
				p.next()
				p.next()
				ty := p.typeExpr()
				p.expect("]")
				if p.isOp("{") {
					p.next()
					l := &ESeqLit{P: t.p, Elem: ty}
					for !p.isOp("}") {
						l.Elems = append(l.Elems, p.expr())
						if !p.accept(",") {
							break
						}
					}
					p.expect("}")
					return l
				}
				p.i = save
			}
		}
		p.next()
		return &EIdent{t.p, t.s}
	}
	p.fail("expected expression")
	return nil
}
