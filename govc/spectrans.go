package main

import (
	"fmt"
	"go/constant"
	"go/token"
	"go/types"
	"regexp"
	"sort"
	"strings"

	"golang.org/x/tools/go/ssa"
)

// sctx translates contract expressions to SMT terms in a given pair of states.
type sctx struct {
	vc        *VC
	cur, old  *State
	vars      map[string]binding
	resNames  []Param
	results   []Term
	resTypes  []types.Type
	names     map[string]binding // parameter names of the contract being translated
	loopScope token.Pos
	pkg       *types.Package
	tenv      map[string]types.Type
	depth     int
	fn        *ssa.Function // function whose locals may be named (loop invariants, asserts)
	defining  *opaqueInfo   // set while the body of an opaque spec function is being translated
	loopSeen  string        // "seen" names the set of keys already visited by the enclosing map-range loop
	before    *State        // state before the call at which ghost code is anchored
	curLoop   *loopInfo     // the loop whose invariant is being translated (disambiguates "rangeindex")
}

func (vc *VC) ctx(cur, old *State) *sctx {
	c := &sctx{vc: vc, cur: cur, old: old, vars: map[string]binding{}, names: vc.params, fn: vc.fn}
	if vc.fn == nil {
		// a lemma: no code, only the contract's package
		c.tenv = map[string]types.Type{}
		if sp := vc.env.byName[vc.decl.Pkg]; sp != nil {
			c.pkg = sp.Pkg
		}
		return c
	}
	if vc.fn.Pkg != nil {
		c.pkg = vc.fn.Pkg.Pkg
	} else if vc.fn.Origin() != nil && vc.fn.Origin().Pkg != nil {
		c.pkg = vc.fn.Origin().Pkg.Pkg
	}
	if vc.fn.Parent() != nil {
		p := vc.fn.Parent()
		for p.Parent() != nil {
			p = p.Parent()
		}
		if p.Pkg != nil {
			c.pkg = p.Pkg.Pkg
		}
	}
	c.tenv = map[string]types.Type{}
	if tps := vc.fn.TypeParams(); tps != nil {
		for i := 0; i < tps.Len(); i++ {
			c.tenv[tps.At(i).Obj().Name()] = tps.At(i)
		}
	}
	if recv := vc.fn.Signature.Recv(); recv != nil {
		if n := namedOf(recv.Type()); n != nil && n.TypeParams() != nil {
			for i := 0; i < n.TypeParams().Len(); i++ {
				c.tenv[n.TypeParams().At(i).Obj().Name()] = n.TypeParams().At(i)
			}
		}
	}
	c.resNames = vc.results
	return c
}

func (c *sctx) bindResults(rs []Term) {
	c.results = rs
	res := c.vc.fn.Signature.Results()
	c.resTypes = nil
	for i := 0; i < res.Len(); i++ {
		c.resTypes = append(c.resTypes, res.At(i).Type())
	}
}

func (c *sctx) with(name string, b binding) *sctx {
	n := *c
	n.vars = make(map[string]binding, len(c.vars)+1)
	for k, v := range c.vars {
		n.vars[k] = v
	}
	n.vars[name] = b
	return &n
}

func (c *sctx) inState(st *State) *sctx {
	n := *c
	n.cur = st
	return &n
}

func specErr(e Expr, format string, a ...any) error {
	p := e.pos()
	return fmt.Errorf("%s:%d: %s", p.File, p.Line, fmt.Sprintf(format, a...))
}

func (c *sctx) formula(e Expr) Term {
	t, ty := c.expr(e)
	if ty.Kind != "go" || !isBoolean(ty.Go) {
		panic(specErr(e, "expected a boolean, got %s", ty))
	}
	return t
}

func isGo(t *SType) bool { return t != nil && t.Kind == "go" }

func (c *sctx) sortOf(t *SType) string { return c.vc.ssort(t) }

func (c *sctx) expr(e Expr) (Term, *SType) {
	vc := c.vc
	switch x := e.(type) {
	case *EInt:
		return x.V, goT(tInt)
	case *EFloat:
		var f float64
		fmt.Sscan(x.V, &f)
		return floatLit(f), goT(tFloat)
	case *EStr:
		return strLit(x.V), goT(tString)
	case *EBool:
		if x.V {
			return "true", goT(tBool)
		}
		return "false", goT(tBool)
	case *ENil:
		return "0", goT(types.Typ[types.UntypedNil])
	case *EIdent:
		return c.ident(x)
	case *EUnary:
		if x.Op == "&" {
			return c.addrOf(x)
		}
		t, ty := c.expr(x.X)
		switch x.Op {
		case "!":
			return not(t), goT(tBool)
		case "-":
			if isGo(ty) && isFloat(ty.Go) {
				return app("fp.neg", t), ty
			}
			return app("-", t), ty
		case "*":
			if !isGo(ty) {
				panic(specErr(e, "cannot dereference %s", ty))
			}
			p, ok := ty.Go.Underlying().(*types.Pointer)
			if !ok {
				panic(specErr(e, "cannot dereference %s", ty))
			}
			return c.derefPtr(t, p.Elem()), goT(p.Elem())
		}
		panic(specErr(e, "unary %s", x.Op))
	case *EBinary:
		return c.binary(x)
	case *ECond:
		cond := c.formula(x.C)
		a, at := c.expr(x.A)
		b, bt := c.expr(x.B)
		a, b, at = c.unify(a, at, b, bt)
		return ite(cond, a, b), at
	case *ELet:
		v, vt := c.expr(x.Val)
		if isAtom(v) {
			return c.with(x.Name, binding{t: v, typ: vt}).expr(x.Body)
		}
		name := vc.freshName("let." + x.Name)
		body, bt := c.with(x.Name, binding{t: name, typ: vt}).expr(x.Body)
		return fmt.Sprintf("(let ((%s %s)) %s)", name, v, body), bt
	case *EQuant:
		n := c
		var vars []string
		for _, v := range x.Vars {
			vt := vc.resolveType(v.Type, c.pkg, c.tenv)
			name := sym("q." + v.Name)
			n = n.with(v.Name, binding{t: name, typ: vt})
			vars = append(vars, fmt.Sprintf("(%s %s)", name, c.sortOf(vt)))
		}
		body := n.formula(x.Body)
		if len(x.Triggers) > 0 {
			var pats []string
			for _, tr := range x.Triggers {
				var ts []string
				for _, te := range tr {
					t, _ := n.expr(te)
					// "k in m" on a Go map is (and (not (= m 0)) (select dom k)): only the select is a valid pattern
					for strings.HasPrefix(t, "(and ") || strings.HasPrefix(t, "(ite ") {
						kids := splitTop(t)
						if strings.HasPrefix(t, "(ite ") {
							t = kids[2] // m[k] on a Go map is (ite in (select ...) zero): the select is the pattern
						} else {
							t = kids[len(kids)-1]
						}
					}
					ts = append(ts, t)
				}
				// a trigger that still contains connectives (a pure function that expands to a conditional) is not a
				// valid pattern (cvc5 rejects the query, z3 warns): its connective-free subterms over the bound
				// variables are used instead, each as an alternative pattern
				if len(ts) == 1 && hasConnective(ts[0]) {
					var bound []string
					for _, v := range x.Vars {
						bound = append(bound, sym("q."+v.Name))
					}
					for _, sub := range patternSubterms(ts[0], bound) {
						pats = append(pats, ":pattern ("+sub+")")
					}
					continue
				}
				pats = append(pats, ":pattern ("+strings.Join(ts, " ")+")")
			}
			if len(pats) > 0 {
				body = "(! " + body + " " + strings.Join(pats, " ") + ")"
			}
		}
		q := "exists"
		if x.Forall {
			q = "forall"
		}
		return fmt.Sprintf("(%s (%s) %s)", q, strings.Join(vars, " "), body), goT(tBool)
	case *ESeqLit:
		et := vc.resolveType(x.Elem, c.pkg, c.tenv)
		st := &SType{Kind: "seq", Elem: et}
		s := c.sortOf(st)
		t := seqFn(s, "empty")
		for _, el := range x.Elems {
			v, _ := c.expr(el)
			t = app(seqFn(s, "snoc"), t, v)
		}
		return t, st
	case *ESel:
		return c.sel(x)
	case *EIndex:
		return c.index(x)
	case *ESlice:
		return c.sliceExpr(x)
	case *ECall:
		return c.call(x)
	}
	panic(specErr(e, "unsupported expression %T", e))
}

// unify adapts untyped nil / literal types.
func (c *sctx) unify(a Term, at *SType, b Term, bt *SType) (Term, Term, *SType) {
	if isGo(at) && isNilType(at.Go) && bt != nil {
		return c.nilOf(bt), b, bt
	}
	if isGo(bt) && isNilType(bt.Go) && at != nil {
		return a, c.nilOf(at), at
	}
	if at != nil && bt != nil && at.Kind == "real" && isGo(bt) && isIntLit(b) {
		return a, intAsReal(b), at
	}
	if at != nil && bt != nil && bt.Kind == "real" && isGo(at) && isIntLit(a) {
		return intAsReal(a), b, bt
	}
	// integer literal used as a float
	if isGo(at) && isGo(bt) && isFloat(at.Go) && isInteger(bt.Go) && isIntLit(b) {
		return a, intAsFloat(b), at
	}
	if isGo(at) && isGo(bt) && isFloat(bt.Go) && isInteger(at.Go) && isIntLit(a) {
		return intAsFloat(a), b, bt
	}
	return a, b, at
}

func isIntLit(t Term) bool {
	t = strings.TrimSuffix(strings.TrimPrefix(t, "(- "), ")")
	if t == "" {
		return false
	}
	for _, r := range t {
		if r < '0' || r > '9' {
			return false
		}
	}
	return true
}

func intAsReal(t Term) Term {
	if strings.HasPrefix(t, "(- ") {
		return "(- " + strings.TrimSuffix(strings.TrimPrefix(t, "(- "), ")") + ".0)"
	}
	return t + ".0"
}

func intAsFloat(t Term) Term {
	var n int64
	neg := strings.HasPrefix(t, "(- ")
	fmt.Sscan(strings.TrimSuffix(strings.TrimPrefix(t, "(- "), ")"), &n)
	if neg {
		n = -n
	}
	return floatLit(float64(n))
}

func isNilType(t types.Type) bool {
	b, ok := t.(*types.Basic)
	return ok && b.Kind() == types.UntypedNil
}

func (c *sctx) nilOf(t *SType) Term {
	if isGo(t) {
		return c.vc.reg.zero(t.Go)
	}
	return c.vc.specZero(t)
}

func (c *sctx) ident(x *EIdent) (Term, *SType) {
	vc := c.vc
	if b, ok := c.vars[x.Name]; ok {
		return b.t, b.typ
	}
	if x.Name == "rangepos" && strings.HasSuffix(c.loopSeen, ".pos") {
		return vc.comp(c.cur, c.loopSeen, sInt), goT(tInt)
	}
	if x.Name == "rangecount" && strings.HasSuffix(c.loopSeen, ".pos") {
		return vc.comp(c.cur, strings.TrimSuffix(c.loopSeen, ".pos")+".k", sInt), goT(tInt)
	}
	if x.Name == "seen" && strings.HasSuffix(c.loopSeen, ".seen") {
		ks := strings.TrimSuffix(strings.TrimPrefix(vc.compSort[c.loopSeen], "(Array "), " Bool)")
		_ = ks
		return vc.comp(c.cur, c.loopSeen, vc.compSort[c.loopSeen]), &SType{Kind: "set", Elem: goT(tString)}
	}
	if c.loopScope.IsValid() && c.fn != nil {
		if a := c.localByName(x.Name, c.loopScope); a != nil {
			if !a.Heap {
				if t, ok := c.cur.cells[a]; ok {
					return t, goT(deref(a.Type()))
				}
			} else if r, ok := vc.vals[a]; ok {
				return c.derefPtr(r, deref(a.Type())), goT(deref(a.Type()))
			}
		}
	}
	for i, r := range c.resNames {
		if r.Name == x.Name {
			if c.results == nil {
				panic(specErr(x, "result %s used outside a postcondition", x.Name))
			}
			return c.results[i], goT(c.resTypes[i])
		}
	}
	if b, ok := c.names[x.Name]; ok {
		return b.t, b.typ
	}
	if gt, ok := vc.ghostLocals[x.Name]; ok && c.fn == vc.fn {
		return vc.comp(c.cur, "L."+x.Name, c.sortOf(gt)), gt
	}
	if g, ok := vc.env.gvars[x.Name]; ok {
		gt := vc.resolveType(g.RetType, nil, nil)
		return vc.comp(c.cur, "G.var."+x.Name, c.sortOf(gt)), gt
	}
	// package-level constants of the contract's package
	if c.pkg != nil {
		if x.Name == "initguard" { // the once-flag of the package initialiser
			if sp := vc.env.byPath[c.pkg.Path()]; sp != nil {
				if g, ok := sp.Members["init$guard"].(*ssa.Global); ok {
					return c.derefPtr(vc.globalRef(g), deref(g.Type())), goT(deref(g.Type()))
				}
			}
		}
		if o := c.pkg.Scope().Lookup(x.Name); o != nil {
			if t, ty, ok := c.pkgObject(o); ok {
				return t, ty
			}
		}
	}
	// nullary datatype constructors
	if d, ok := vc.env.ctors[x.Name]; ok {
		vc.declDatatype(d.Name)
		return sym("ys.C." + x.Name), &SType{Kind: "data", Name: d.Name}
	}
	// rounding modes etc.
	panic(specErr(x, "unknown identifier %s", x.Name))
}

func (c *sctx) pkgObject(o types.Object) (Term, *SType, bool) {
	switch v := o.(type) {
	case *types.Var:
		// a package-level variable: its current content (globals are assumed read-only after initialisation
		// where an effect check says so)
		if sp := c.vc.env.byPath[v.Pkg().Path()]; sp != nil {
			if g, ok := sp.Members[v.Name()].(*ssa.Global); ok {
				return c.derefPtr(c.vc.globalRef(g), v.Type()), goT(v.Type()), true
			}
		}
	case *types.Const:
		t := v.Type()
		switch {
		case isInteger(t) || (isUntyped(t) && v.Val().Kind() == constant.Int):
			i, _ := constant.Int64Val(constant.ToInt(v.Val()))
			if isUntyped(t) {
				t = tInt
			}
			return intLit(i), goT(t), true
		case isString(t):
			if isUntyped(t) {
				t = tString
			}
			return strLit(constant.StringVal(v.Val())), goT(t), true
		case isBoolean(t):
			if constant.BoolVal(v.Val()) {
				return "true", goT(tBool), true
			}
			return "false", goT(tBool), true
		case isFloat(t):
			f, _ := constant.Float64Val(v.Val())
			return floatLit(f), goT(tFloat), true
		}
	}
	return "", nil, false
}

func isUntyped(t types.Type) bool {
	b, ok := t.(*types.Basic)
	return ok && b.Info()&types.IsUntyped != 0
}

// localByName finds the local variable visible under that name at pos.
func (c *sctx) localByName(name string, pos token.Pos) *ssa.Alloc {
	fn := c.fn
	var cands []*ssa.Alloc
	for _, b := range fn.Blocks {
		for _, in := range b.Instrs {
			if a, ok := in.(*ssa.Alloc); ok && a.Comment == name {
				cands = append(cands, a)
			}
		}
	}
	if len(cands) == 0 {
		return nil
	}
	if len(cands) == 1 {
		return cands[0]
	}
	if name == "rangeindex" && c.curLoop != nil {
		// the hidden index of the current loop: the one its header increments
		for _, in := range c.curLoop.header.Instrs {
			if st, ok := in.(*ssa.Store); ok {
				if a, ok := st.Addr.(*ssa.Alloc); ok && a.Comment == "rangeindex" {
					return a
				}
			}
		}
	}
	// several variables of that name: use go/types scopes at the loop position
	if c.pkg != nil {
		if sc := c.pkg.Scope().Innermost(pos); sc != nil {
			// look a little inside the loop statement so that variables declared in its header are visible
			if _, o := sc.LookupParent(name, pos+1); o != nil {
				for _, a := range cands {
					if a.Pos() == o.Pos() {
						return a
					}
				}
			}
		}
	}
	// fall back to the last declaration before the position
	var best *ssa.Alloc
	for _, a := range cands {
		if a.Pos() <= pos && (best == nil || a.Pos() > best.Pos()) {
			best = a
		}
	}
	if best == nil {
		best = cands[0]
	}
	return best
}

func (c *sctx) derefPtr(p Term, elem types.Type) Term {
	vc := c.vc
	switch elem.Underlying().(type) {
	case *types.Struct:
		return vc.loadStruct(c.cur, elem, p)
	case *types.Array:
		comp, cs := vc.elemsComp(elem.Underlying().(*types.Array).Elem())
		return app("select", vc.comp(c.cur, comp, cs), p)
	}
	comp, cs := vc.boxComp(elem)
	return app("select", vc.comp(c.cur, comp, cs), p)
}

// addrOf: &p.f for a field that lives at a derived reference (embedded struct, address-taken field).
func (c *sctx) addrOf(x *EUnary) (Term, *SType) {
	if id, ok := x.X.(*EIdent); ok && c.loopScope.IsValid() && c.fn != nil {
		// the address of a heap-allocated local variable
		if a := c.localByName(id.Name, c.loopScope); a != nil && a.Heap {
			if r, ok := c.vc.vals[a]; ok {
				return r, goT(a.Type())
			}
		}
	}
	s, ok := x.X.(*ESel)
	if !ok {
		panic(specErr(x, "& needs a field selection or a heap-allocated local"))
	}
	p, pt := c.expr(s.X)
	ptr, ok := pt.Go.Underlying().(*types.Pointer)
	if !ok {
		panic(specErr(x, "&%s: not a pointer", s.Name))
	}
	st := ptr.Elem()
	str, ok := st.Underlying().(*types.Struct)
	if !ok {
		panic(specErr(x, "&%s: not a struct", s.Name))
	}
	for i := 0; i < str.NumFields(); i++ {
		f := str.Field(i)
		if f.Name() == s.Name {
			if inner, _ := c.vc.isInnerField(st, f); !inner {
				panic(specErr(x, "&%s.%s: the address of this field is never taken in the code", typeKey(st), s.Name))
			}
			return c.vc.innerRef(st, f.Name(), p), goT(types.NewPointer(f.Type()))
		}
	}
	panic(specErr(x, "no field %s", s.Name))
}

func (c *sctx) sel(x *ESel) (Term, *SType) {
	vc := c.vc
	// package-qualified name
	if id, ok := x.X.(*EIdent); ok {
		if _, isVar := c.lookupAny(id.Name); !isVar {
			if sp := vc.env.byName[id.Name]; sp != nil {
				if o := sp.Pkg.Scope().Lookup(x.Name); o != nil {
					if t, ty, ok := c.pkgObject(o); ok {
						return t, ty
					}
				}
				panic(specErr(x, "cannot use %s.%s in a contract", id.Name, x.Name))
			}
		}
	}
	t, ty := c.expr(x.X)
	if ty.Kind == "data" {
		d := vc.env.dtypes[ty.Name]
		for _, ct := range d.Ctors {
			for _, f := range ct.Fields {
				if f.Name == x.Name {
					return app(sym("ys.D."+ty.Name+"."+f.Name), t), vc.resolveType(f.Type, nil, nil)
				}
			}
		}
		panic(specErr(x, "datatype %s has no field %s", ty.Name, x.Name))
	}
	if !isGo(ty) {
		panic(specErr(x, "cannot select .%s from %s", x.Name, ty))
	}
	gt := ty.Go
	if p, ok := gt.Underlying().(*types.Pointer); ok {
		st := p.Elem()
		if s, ok := st.Underlying().(*types.Struct); ok {
			for i := 0; i < s.NumFields(); i++ {
				if s.Field(i).Name() == x.Name {
					return vc.loadField(c.cur, st, s.Field(i), t), goT(s.Field(i).Type())
				}
			}
		}
		if g := vc.ghostField(st, x.Name); g != nil {
			gty := vc.resolveGhostType(g, st)
			comp := vc.ghostComp(st, x.Name)
			return app("select", vc.comp(c.cur, comp, "(Array Int "+c.sortOf(gty)+")"), t), gty
		}
		panic(specErr(x, "type %s has no field %s", typeKey(st), x.Name))
	}
	if s, ok := gt.Underlying().(*types.Struct); ok {
		for i := 0; i < s.NumFields(); i++ {
			if s.Field(i).Name() == x.Name {
				vc.reg.sortOf(gt)
				return app(structSel(typeKey(gt), x.Name), t), goT(s.Field(i).Type())
			}
		}
	}
	panic(specErr(x, "type %s has no field %s", typeKey(gt), x.Name))
}

func (c *sctx) lookupAny(name string) (binding, bool) {
	if b, ok := c.vars[name]; ok {
		return b, true
	}
	for _, r := range c.resNames {
		if r.Name == name {
			return binding{}, true
		}
	}
	if b, ok := c.names[name]; ok {
		return b, true
	}
	if c.loopScope.IsValid() && c.fn != nil && c.localByName(name, c.loopScope) != nil {
		return binding{}, true
	}
	return binding{}, false
}

func (c *sctx) index(x *EIndex) (Term, *SType) {
	vc := c.vc
	t, ty := c.expr(x.X)
	i, _ := c.expr(x.I)
	switch ty.Kind {
	case "seq":
		return app(seqFn(c.sortOf(ty), "at"), t, i), ty.Elem
	case "map":
		return app("select", t, i), ty.Elem
	case "set":
		return app("select", t, i), goT(tBool)
	}
	switch u := ty.Go.Underlying().(type) {
	case *types.Slice:
		comp, cs := vc.elemsComp(u.Elem())
		return app(vc.reg.eltFn(vc.reg.sortOf(u.Elem())), app("select", vc.comp(c.cur, comp, cs), app("ys.arr", t)), app("ys.off", t), i), goT(u.Elem())
	case *types.Array:
		return app("select", t, i), goT(u.Elem())
	case *types.Map:
		d, v, ds, vs := vc.mapComps(u)
		in := and(not(eq(t, "0")), app("select", app("select", vc.comp(c.cur, d, ds), t), i))
		return ite(in, app("select", app("select", vc.comp(c.cur, v, vs), t), i), vc.reg.zero(u.Elem())), goT(u.Elem())
	case *types.Basic:
		if isString(ty.Go) {
			return app("str.to_code", app("str.at", t, i)), goT(tInt)
		}
	}
	panic(specErr(x, "cannot index %s", ty))
}

func (c *sctx) sliceExpr(x *ESlice) (Term, *SType) {
	t, ty := c.expr(x.X)
	var lo, hi Term
	if x.Lo != nil {
		lo, _ = c.expr(x.Lo)
	}
	if x.Hi != nil {
		hi, _ = c.expr(x.Hi)
	}
	switch {
	case ty.Kind == "seq":
		s := c.sortOf(ty)
		if hi != "" {
			t = app(seqFn(s, "take"), t, hi)
		}
		if lo != "" {
			t = app(seqFn(s, "drop"), t, lo)
		}
		return t, ty
	case isGo(ty) && isString(ty.Go):
		if lo == "" {
			lo = "0"
		}
		if hi == "" {
			hi = app("str.len", t)
		}
		return app("str.substr", t, lo, app("-", hi, lo)), ty
	case isGo(ty):
		if _, ok := ty.Go.Underlying().(*types.Slice); ok {
			if lo == "" {
				lo = "0"
			}
			if hi == "" {
				hi = app("ys.len", t)
			}
			return app("ys.mkslice", app("ys.arr", t), app("+", app("ys.off", t), lo), app("-", hi, lo), app("-", app("ys.cap", t), lo)), ty
		}
	}
	panic(specErr(x, "cannot slice %s", ty))
}

func (c *sctx) binary(x *EBinary) (Term, *SType) {
	switch x.Op {
	case "&&":
		return and(c.formula(x.L), c.formula(x.R)), goT(tBool)
	case "||":
		return or(c.formula(x.L), c.formula(x.R)), goT(tBool)
	case "==>":
		return implies(c.formula(x.L), c.formula(x.R)), goT(tBool)
	case "<==>":
		return eq(c.formula(x.L), c.formula(x.R)), goT(tBool)
	}
	a, at := c.expr(x.L)
	b, bt := c.expr(x.R)
	a, b, at = c.unify(a, at, b, bt)
	switch x.Op {
	case "==", "!=":
		var r Term
		if at.Kind == "seq" {
			r = app(seqFn(c.sortOf(at), "eq"), a, b)
		} else {
			r = eq(a, b)
		}
		if x.Op == "!=" {
			r = not(r)
		}
		return r, goT(tBool)
	case "<", "<=", ">", ">=":
		if isGo(at) && isFloat(at.Go) {
			return app(map[string]string{"<": "fp.lt", "<=": "fp.leq", ">": "fp.gt", ">=": "fp.geq"}[x.Op], a, b), goT(tBool)
		}
		if isGo(at) && isString(at.Go) {
			switch x.Op {
			case "<":
				return app("str.<", a, b), goT(tBool)
			case "<=":
				return app("str.<=", a, b), goT(tBool)
			case ">":
				return app("str.<", b, a), goT(tBool)
			default:
				return app("str.<=", b, a), goT(tBool)
			}
		}
		return app(x.Op, a, b), goT(tBool)
	case "in":
		switch {
		case bt.Kind == "set":
			return app("select", b, a), goT(tBool)
		case isGo(bt):
			if m, ok := bt.Go.Underlying().(*types.Map); ok {
				d, _, ds, _ := c.vc.mapComps(m)
				return and(not(eq(b, "0")), app("select", app("select", c.vc.comp(c.cur, d, ds), b), a)), goT(tBool)
			}
		}
		panic(specErr(x, "'in' needs a map or a set, got %s", bt))
	case "++":
		if at.Kind != "seq" {
			panic(specErr(x, "++ needs sequences"))
		}
		return app(seqFn(c.sortOf(at), "app"), a, b), at
	case "+", "-", "*", "/", "%":
		if isGo(at) && isString(at.Go) && x.Op == "+" {
			return app("str.++", a, b), at
		}
		if isGo(at) && isFloat(at.Go) {
			tok := map[string]token.Token{"+": token.ADD, "-": token.SUB, "*": token.MUL, "/": token.QUO}[x.Op]
			if x.Op == "%" {
				panic(specErr(x, "%% on floats: use fmod"))
			}
			return c.vc.floatOp(tok, a, b), at
		}
		if at.Kind == "real" {
			if x.Op == "%" {
				panic(specErr(x, "%% on reals"))
			}
			return app(x.Op, a, b), at
		}
		switch x.Op {
		case "/":
			return goDiv(a, b), at
		case "%":
			return goRem(a, b), at
		}
		return app(x.Op, a, b), at
	}
	panic(specErr(x, "operator %s", x.Op))
}

func (c *sctx) call(x *ECall) (Term, *SType) {
	vc := c.vc
	// method-style spec function
	if s, ok := x.Fun.(*ESel); ok {
		// package-qualified spec function or constant function? treat "pkg.f(...)" as f
		recvT, recvTy := c.expr(s.X)
		d := c.findPure(s.Name, recvTy)
		if d == nil {
			panic(specErr(x, "no spec function %s on %s", s.Name, recvTy))
		}
		return c.expand(d, &binding{t: recvT, typ: recvTy}, x.Args, x)
	}
	id, ok := x.Fun.(*EIdent)
	if !ok {
		panic(specErr(x, "cannot call this expression"))
	}
	arg := func(i int) (Term, *SType) {
		if i >= len(x.Args) {
			panic(specErr(x, "%s: too few arguments", id.Name))
		}
		return c.expr(x.Args[i])
	}
	switch id.Name {
	case "old":
		return c.inState(c.old).expr(x.Args[0])
	case "before":
		if c.before == nil {
			panic(specErr(x, "before() is only available in ghost code anchored after a call"))
		}
		return c.inState(c.before).expr(x.Args[0])
	case "len":
		t, ty := arg(0)
		switch {
		case ty.Kind == "seq":
			return app(seqFn(c.sortOf(ty), "len"), t), goT(tInt)
		case isGo(ty) && isString(ty.Go):
			return app("str.len", t), goT(tInt)
		case isGo(ty):
			switch u := ty.Go.Underlying().(type) {
			case *types.Slice:
				return app("ys.len", t), goT(tInt)
			case *types.Array:
				return fmt.Sprint(u.Len()), goT(tInt)
			case *types.Map:
				d, _, ds, _ := vc.mapComps(u)
				fn := sym("ys.card." + sanitizeFile(vc.reg.sortOf(u.Key())))
				vc.reg.decl(fn, fmt.Sprintf("(declare-fun %s ((Array %s Bool)) Int)", fn, vc.reg.sortOf(u.Key())))
				return app(fn, app("select", vc.comp(c.cur, d, ds), t)), goT(tInt)
			}
		}
		panic(specErr(x, "len of %s", ty))
	case "cap":
		t, _ := arg(0)
		return app("ys.cap", t), goT(tInt)
	case "seq":
		t, ty := arg(0)
		if ty.Kind == "seq" {
			return t, ty
		}
		sl, ok := ty.Go.Underlying().(*types.Slice)
		if !ok {
			panic(specErr(x, "seq() needs a slice"))
		}
		st := &SType{Kind: "seq", Elem: goT(sl.Elem())}
		comp, cs := vc.elemsComp(sl.Elem())
		sq := app(seqFn(c.sortOf(st), "ofarr"), app("select", vc.comp(c.cur, comp, cs), app("ys.arr", t)), app("ys.off", t), app("ys.len", t))
		if isRefType(sl.Elem()) && !c.cur.symbolic && closedTerm(sq) {
			// the elements of a slice of references denote allocated objects (Go's memory safety)
			key := "seqvalid:" + sq
			if _, done := vc.uninterp[key]; !done {
				vc.uninterp[key] = "1"
				at := seqFn(c.sortOf(st), "at")
				vc.assume(fmt.Sprintf("(forall ((k Int)) (! (=> (and (<= 0 k) (< k %s)) (< (%s %s k) %s)) :pattern ((%s %s k))))", app("ys.len", t), at, sq, vc.next(c.cur), at, sq))
			}
		}
		return sq, st
	case "dom":
		t, ty := arg(0)
		m, ok := ty.Go.Underlying().(*types.Map)
		if !ok {
			panic(specErr(x, "dom() needs a map"))
		}
		d, _, ds, _ := vc.mapComps(m)
		return app("select", vc.comp(c.cur, d, ds), t), &SType{Kind: "set", Elem: goT(m.Key())}
	case "mapval":
		t, ty := arg(0)
		m, ok := ty.Go.Underlying().(*types.Map)
		if !ok {
			panic(specErr(x, "mapval() needs a map"))
		}
		_, v, _, vs := vc.mapComps(m)
		return app("select", vc.comp(c.cur, v, vs), t), &SType{Kind: "map", Key: goT(m.Key()), Elem: goT(m.Elem())}
	case "mkseq":
		// mkseq(n, i, body): the sequence of length n whose i-th element is body (a definition by
		// comprehension: a fresh constant with its characteristic facts; sound by extensionality)
		if len(x.Args) != 3 && len(x.Args) != 4 {
			panic(specErr(x, "mkseq(n, i, body [, extra trigger])"))
		}
		n, _ := arg(0)
		iv, ok := x.Args[1].(*EIdent)
		if !ok {
			panic(specErr(x, "mkseq: second argument must be the index variable"))
		}
		bv := sym("q." + iv.Name)
		body, bt := c.with(iv.Name, binding{t: bv, typ: goT(tInt)}).expr(x.Args[2])
		st := &SType{Kind: "seq", Elem: bt}
		ss := c.sortOf(st)
		key := "mkseq:" + n + ":" + body
		if t, ok := vc.uninterp[key]; ok {
			return t, st
		}
		name := vc.fresh("mkseq", ss)
		vc.uninterp[key] = name
		vc.assumeGlobal(implies(app(">=", n, "0"), eq(app(seqFn(ss, "len"), name), n)))
		pats := fmt.Sprintf(":pattern ((%s %s %s))", seqFn(ss, "at"), name, bv)
		if len(x.Args) == 4 {
			tr, _ := c.with(iv.Name, binding{t: bv, typ: goT(tInt)}).expr(x.Args[3])
			pats += " :pattern (" + tr + ")"
		}
		vc.assumeGlobal(fmt.Sprintf("(forall ((%s Int)) (! (=> (and (<= 0 %s) (< %s %s)) (= (%s %s %s) %s)) %s))", bv, bv, bv, n, seqFn(ss, "at"), name, bv, body, pats))
		return name, st
	case "ready": // ready(ch): the channel can deliver a value now
		t, _ := arg(0)
		vc.chanFns()
		return and(not(eq(t, "0")), app("ys.x.ready", vc.comp(c.cur, worldComp, vc.worldSort()), t)), goT(tBool)
	case "readyIn": // readyIn(w, ch)
		w, _ := arg(0)
		t, _ := arg(1)
		vc.chanFns()
		return and(not(eq(t, "0")), app("ys.x.ready", w, t)), goT(tBool)
	case "recv": // recv(ch): the value it delivers
		t, ty := arg(0)
		ch, ok := ty.Go.Underlying().(*types.Chan)
		if !ok {
			panic(specErr(x, "recv() needs a channel"))
		}
		return app(vc.recvFn(ch.Elem()), vc.comp(c.cur, worldComp, vc.worldSort()), t), goT(ch.Elem())
	case "recvIn": // recvIn(w, ch)
		w, _ := arg(0)
		t, ty := arg(1)
		ch, ok := ty.Go.Underlying().(*types.Chan)
		if !ok {
			panic(specErr(x, "recvIn() needs a channel"))
		}
		return app(vc.recvFn(ch.Elem()), w, t), goT(ch.Elem())
	case "recvW": // recvW(w, ch): the world after the receive
		w, wt := arg(0)
		t, _ := arg(1)
		vc.chanFns()
		return app("ys.x.recvW", w, t), wt
	case "chancap":
		t, _ := arg(0)
		return app("select", vc.comp(c.cur, "H.chancap", "(Array Int Int)"), t), goT(tInt)
	case "chancnt":
		t, _ := arg(0)
		return app("select", vc.comp(c.cur, "H.chancnt", "(Array Int Int)"), t), goT(tInt)
	case "arrayOf":
		t, _ := arg(0)
		return app("ys.arr", t), goT(tInt)
	case "fresh":
		t, ty := arg(0)
		r := t
		if isGo(ty) {
			switch ty.Go.Underlying().(type) {
			case *types.Slice:
				r = app("ys.arr", t)
			case *types.Interface:
				r = app("ys.ipay", t)
			}
		}
		return and(app("<=", vc.next(c.old), r), app("<", r, vc.next(c.cur))), goT(tBool)
	case "inited":
		tgs := c.modTargets(x.Args[0])
		if len(tgs) != 1 || tgs[0].whole {
			panic(specErr(x, "inited() needs a single field"))
		}
		return app("select", vc.comp(c.cur, "I."+tgs[0].comp, "(Array Int Bool)"), tgs[0].ref), goT(tBool)
	case "allocated":
		t, _ := arg(0)
		return and(app("<", "0", rootOf(t)), app("<", rootOf(t), vc.next(c.cur))), goT(tBool)
	case "istype":
		t, _ := arg(0)
		ty := vc.resolveType(x.TArgs[0], c.pkg, c.tenv)
		return eq(app("ys.ityp", t), fmt.Sprint(vc.reg.typeID(ty.Go))), goT(tBool)
	case "typeid":
		ty := vc.resolveType(x.TArgs[0], c.pkg, c.tenv)
		return fmt.Sprint(vc.reg.typeID(ty.Go)), goT(tInt)
	case "dyntype":
		t, _ := arg(0)
		return app("ys.ityp", t), goT(tInt)
	case "unbox":
		t, _ := arg(0)
		ty := vc.resolveType(x.TArgs[0], c.pkg, c.tenv)
		switch ty.Go.Underlying().(type) {
		case *types.Pointer, *types.Map, *types.Chan, *types.Signature:
			return app("ys.ipay", t), ty
		}
		return vc.unboxVal(app("ys.ipay", t), ty.Go), ty
	case "iface":
		t, _ := arg(0)
		ty := vc.resolveType(x.TArgs[0], c.pkg, c.tenv)
		return vc.makeIface(t, ty.Go), goT(types.Universe.Lookup("any").Type())
	case "zero":
		ty := vc.resolveType(x.TArgs[0], c.pkg, c.tenv)
		return c.nilOf(ty), ty
	case "fadd", "fsub", "fmul", "fdiv":
		a, at := arg(0)
		b, _ := arg(1)
		tok := map[string]token.Token{"fadd": token.ADD, "fsub": token.SUB, "fmul": token.MUL, "fdiv": token.QUO}[id.Name]
		return vc.floatOp(tok, a, b), at
	case "fadd_rtn", "fadd_rtp", "fsub_rtn", "fsub_rtp", "fmul_rtn", "fmul_rtp", "fdiv_rtn", "fdiv_rtp":
		// directed-rounding variants: an operation whose round-down and round-up results coincide is exact
		a, at := arg(0)
		b, _ := arg(1)
		op := map[string]string{"fadd": "fp.add", "fsub": "fp.sub", "fmul": "fp.mul", "fdiv": "fp.div"}[id.Name[:4]]
		return app(op, strings.ToUpper(id.Name[5:]), a, b), at
	case "fmod":
		a, at := arg(0)
		b, _ := arg(1)
		return app(vc.ufloat("ys.fmod"), a, b), at
	case "fneg":
		a, at := arg(0)
		return app("fp.neg", a), at
	case "feq":
		a, _ := arg(0)
		b, _ := arg(1)
		return app("fp.eq", a, b), goT(tBool)
	case "isNaN", "isInf", "isZero", "isNeg":
		a, _ := arg(0)
		return app(map[string]string{"isNaN": "fp.isNaN", "isInf": "fp.isInfinite", "isZero": "fp.isZero", "isNeg": "fp.isNegative"}[id.Name], a), goT(tBool)
	case "rtn", "rtp", "rtz", "rna", "rne":
		a, at := arg(0)
		return app("fp.roundToIntegral", strings.ToUpper(id.Name), a), at
	case "real":
		a, at := arg(0)
		if isGo(at) && isFloat(at.Go) {
			return app("fp.to_real", a), &SType{Kind: "real", Name: "Real"}
		}
		if lit, ok := x.Args[0].(*EFloat); ok {
			return lit.V, &SType{Kind: "real", Name: "Real"}
		}
		if isIntLit(a) {
			return intAsReal(a), &SType{Kind: "real", Name: "Real"}
		}
		return app("to_real", a), &SType{Kind: "real", Name: "Real"}
	case "fabs":
		a, at := arg(0)
		return app("fp.abs", a), at
	case "isIntegral":
		a, _ := arg(0)
		return and(not(app("fp.isNaN", a)), not(app("fp.isInfinite", a)), app("fp.eq", a, app("fp.roundToIntegral", "RTZ", a))), goT(tBool)
	case "float":
		a, at := arg(0)
		if isGo(at) && isFloat(at.Go) {
			return a, at
		}
		if isIntLit(a) {
			return intAsFloat(a), goT(tFloat)
		}
		vc.convFns()
		return app("ys.i2f", a), goT(tFloat)
	case "toInt": // float -> int, truncation (Go's conversion when the value fits)
		a, _ := arg(0)
		vc.convFns()
		return app("ys.f2i", a), goT(tInt)
	case "fitsInt":
		a, _ := arg(0)
		vc.convFns()
		return app("ys.f2i.ok", a), goT(tBool)
	case "abs":
		a, at := arg(0)
		return ite(app(">=", a, "0"), a, app("-", a)), at
	case "min":
		a, at := arg(0)
		b, _ := arg(1)
		return ite(app("<=", a, b), a, b), at
	case "max":
		a, at := arg(0)
		b, _ := arg(1)
		return ite(app(">=", a, b), a, b), at
	case "matches":
		a, _ := arg(0)
		re, ok := x.Args[1].(*EStr)
		if !ok {
			panic(specErr(x, "matches needs a literal regular expression"))
		}
		return app("str.in_re", a, regexToSMT(re.V)), goT(tBool)
	case "strcontains":
		a, _ := arg(0)
		b, _ := arg(1)
		return app("str.contains", a, b), goT(tBool)
	case "strprefix":
		a, _ := arg(0)
		b, _ := arg(1)
		return app("str.prefixof", a, b), goT(tBool)
	case "itoa":
		a, _ := arg(0)
		return ite(app(">=", a, "0"), app("str.from_int", a), app("str.++", `"-"`, app("str.from_int", app("-", a)))), goT(tString)
	case "snoc":
		a, at := arg(0)
		b, _ := arg(1)
		return app(seqFn(c.sortOf(at), "snoc"), a, b), at
	case "mapstore": // functional update of a mathematical map / set
		a, at := arg(0)
		k, _ := arg(1)
		v, _ := arg(2)
		return app("store", a, k, v), at
	case "implements":
		panic(specErr(x, "implements() not supported"))
	}
	// datatype constructors
	if d, ok := vc.env.ctors[id.Name]; ok {
		vc.declDatatype(d.Name)
		var ct *Ctor
		for i := range d.Ctors {
			if d.Ctors[i].Name == id.Name {
				ct = &d.Ctors[i]
			}
		}
		if len(x.Args) != len(ct.Fields) {
			panic(specErr(x, "constructor %s takes %d arguments", id.Name, len(ct.Fields)))
		}
		var as []Term
		for i, a := range x.Args {
			t, ty := c.expr(a)
			ft := vc.resolveType(ct.Fields[i].Type, nil, nil)
			t, _, _ = c.unify(t, ty, c.nilOf(ft), ft)
			as = append(as, t)
		}
		return app(sym("ys.C."+id.Name), as...), &SType{Kind: "data", Name: d.Name}
	}
	// constructor testers: isCtor(x)
	if strings.HasPrefix(id.Name, "is") {
		if d, ok := vc.env.ctors[id.Name[2:]]; ok && len(x.Args) == 1 {
			vc.declDatatype(d.Name)
			t, _ := arg(0)
			return app("(_ is "+sym("ys.C."+id.Name[2:])+")", t), goT(tBool)
		}
	}
	if d, ok := vc.env.externs[id.Name]; ok {
		return c.externApp(d, x)
	}
	if d := c.findPure(id.Name, nil); d != nil {
		return c.expand(d, nil, x.Args, x)
	}
	panic(specErr(x, "unknown function %s", id.Name))
}

func (c *sctx) externApp(d *Decl, x *ECall) (Term, *SType) {
	vc := c.vc
	rt := vc.resolveType(d.RetType, nil, nil)
	fn := sym("ys.x." + d.Name)
	var sorts []string
	var pts []*SType
	for _, p := range d.Params {
		pt := vc.resolveType(p.Type, nil, nil)
		pts = append(pts, pt)
		sorts = append(sorts, c.sortOf(pt))
	}
	rs := c.sortOf(rt)
	vc.reg.decl(fn, fmt.Sprintf("(declare-fun %s (%s) %s)", fn, strings.Join(sorts, " "), rs))
	if len(x.Args) != len(d.Params) {
		panic(specErr(x, "%s takes %d arguments", d.Name, len(d.Params)))
	}
	var as []Term
	for i, a := range x.Args {
		t, ty := c.expr(a)
		t, _, _ = c.unify(t, ty, c.nilOf(pts[i]), pts[i])
		as = append(as, t)
	}
	vc.useAxiomsFor(d.Name)
	return app(fn, as...), rt
}

// findPure finds a spec function by name and (for method style) receiver type.
func (c *sctx) findPure(name string, recv *SType) *Decl {
	for _, d := range c.vc.env.pures[name] {
		if recv == nil {
			if d.Recv == nil {
				return d
			}
			continue
		}
		if d.Recv == nil {
			continue
		}
		rt := d.Recv.Type
		for rt.Kind == "ptr" {
			rt = rt.Elem
		}
		switch recv.Kind {
		case "go":
			if n := namedOf(recv.Go); n != nil && n.Obj().Name() == rt.Name && (rt.Pkg == "" || rt.Pkg == qual(n.Obj().Pkg())) {
				return d
			}
		case "data", "abstract":
			if recv.Name == rt.Name {
				return d
			}
		}
	}
	return nil
}

// expand macro-expands a (non-recursive) spec function; opaque / recursive ones become
// uninterpreted functions with a definitional axiom.
func (c *sctx) expand(d *Decl, recv *binding, args []Expr, at Expr) (Term, *SType) {
	if len(args) != len(d.Params) {
		panic(specErr(at, "%s takes %d arguments", d.Name, len(d.Params)))
	}
	if d.Opaque {
		return c.opaqueApp(d, recv, args, at)
	}
	if c.depth > 40 {
		panic(specErr(at, "spec function %s is recursive: declare it opaque", d.Name))
	}
	n := *c
	n.depth = c.depth + 1
	n.vars = map[string]binding{}
	n.loopScope = token.NoPos
	n.names = map[string]binding{}
	n.resNames = nil
	if recv != nil {
		n.vars[d.Recv.Name] = *recv
	}
	for i, p := range d.Params {
		t, ty := c.expr(args[i])
		if p.Type != nil {
			pt := c.vc.resolveTypeLenient(p.Type, c.pkg, c.tenv)
			if pt != nil {
				t, _, _ = c.unify(t, ty, c.nilOf(pt), pt)
				if isGo(ty) && isNilType(ty.Go) {
					ty = pt
				}
			}
		}
		n.vars[p.Name] = binding{t: t, typ: ty}
	}
	// the body is resolved in the package where the spec function was declared
	if d.Pkg != "" {
		if sp := c.vc.env.byName[d.Pkg]; sp != nil {
			n.pkg = sp.Pkg
		}
	}
	t, ty := n.expr(d.Body)
	if d.RetType != nil {
		if rt := c.vc.resolveTypeLenient(d.RetType, n.pkg, c.tenv); rt != nil && isGo(ty) && isNilType(ty.Go) {
			return c.nilOf(rt), rt
		}
	}
	// a large closed expansion gets a name (once): smaller queries, shared terms
	if len(t) > 400 && !c.cur.symbolic && closedTerm(t) {
		if name, ok := c.vc.uninterp["def:"+t]; ok {
			return name, ty
		}
		name := c.vc.fresh("d."+d.Name, c.sortOf(ty))
		c.vc.facts = append(c.vc.facts, fact{fmt.Sprintf("(assert (= %s %s))", name, t), -1})
		c.vc.uninterp["def:"+t] = name
		return name, ty
	}
	return t, ty
}

var boundVarRe = regexp.MustCompile(`(^|[ (])\|?(q|a|h|let)\.`)

// closedTerm: no quantifier-, let- or axiom-bound variable occurs in the term.
func closedTerm(t Term) bool { return !boundVarRe.MatchString(t) }

func (vc *VC) resolveTypeLenient(te *TypeExpr, pkg *types.Package, tenv map[string]types.Type) (t *SType) {
	defer func() {
		if r := recover(); r != nil {
			t = nil
		}
	}()
	return vc.resolveType(te, pkg, tenv)
}

// ---- opaque spec functions -----------------------------------------------------------------------------
//
// An opaque (possibly recursive) spec function becomes an uninterpreted SMT function whose
// arguments are the heap components its body reads (lambda-lifted, so it can be applied in any
// state) followed by its explicit parameters, with a definitional axiom triggered on applications.
// The component lists of mutually recursive functions are computed by a fixpoint.

type opaqueInfo struct {
	d     *Decl
	fn    string
	ps    []Param
	pts   []*SType
	sorts []string
	rt    *SType
	pkg   *types.Package
	comps []string
	csort map[string]string
	ready bool
}

func (c *sctx) opaqueInfoOf(d *Decl) *opaqueInfo {
	vc := c.vc
	if vc.opq == nil {
		vc.opq = map[*Decl]*opaqueInfo{}
	}
	if oi, ok := vc.opq[d]; ok {
		return oi
	}
	oi := &opaqueInfo{d: d, fn: sym("ys.p." + d.Name), csort: map[string]string{}, pkg: c.pkg}
	if d.Pkg != "" {
		if sp := vc.env.byName[d.Pkg]; sp != nil {
			oi.pkg = sp.Pkg
		}
	}
	oi.rt = vc.resolveType(d.RetType, oi.pkg, nil)
	if d.Recv != nil {
		oi.ps = append(oi.ps, *d.Recv)
	}
	oi.ps = append(oi.ps, d.Params...)
	for _, p := range oi.ps {
		pt := vc.resolveType(p.Type, oi.pkg, nil)
		oi.pts = append(oi.pts, pt)
		oi.sorts = append(oi.sorts, c.sortOf(pt))
	}
	vc.opq[d] = oi
	vc.opqWork = append(vc.opqWork, oi)
	return oi
}

// translateOpaqueBody translates the body over a symbolic state and returns it with the components read.
func (vc *VC) translateOpaqueBody(oi *opaqueInfo) (Term, map[string]string) {
	st := &State{cells: map[*ssa.Alloc]Term{}, comps: map[string]Term{}, symbolic: true, rec: map[string]string{}}
	n := &sctx{vc: vc, cur: st, old: st, vars: map[string]binding{}, names: map[string]binding{}, pkg: oi.pkg, tenv: map[string]types.Type{}, defining: oi}
	for i, p := range oi.ps {
		n.vars[p.Name] = binding{t: sym("a." + p.Name), typ: oi.pts[i]}
	}
	body, _ := n.expr(oi.d.Body)
	return body, st.rec
}

func (vc *VC) settleOpaque() {
	if len(vc.opqWork) == 0 {
		return
	}
	// fixpoint of the component lists over everything discovered so far (translation may discover more)
	for changed := true; changed; {
		changed = false
		for i := 0; i < len(vc.opqWork); i++ {
			oi := vc.opqWork[i]
			before := len(vc.opqWork)
			_, rec := vc.translateOpaqueBody(oi)
			if len(vc.opqWork) != before {
				changed = true
			}
			for k, s := range rec {
				if _, ok := oi.csort[k]; !ok {
					oi.csort[k] = s
					changed = true
				}
			}
		}
	}
	work := vc.opqWork
	vc.opqWork = nil
	for _, oi := range work {
		oi.comps = nil
		for k := range oi.csort {
			oi.comps = append(oi.comps, k)
		}
		sort.Strings(oi.comps)
		var sorts []string
		for _, k := range oi.comps {
			sorts = append(sorts, oi.csort[k])
		}
		sorts = append(sorts, oi.sorts...)
		vc.reg.decl(oi.fn, fmt.Sprintf("(declare-fun %s (%s) %s)\n(declare-fun %s (%s) %s)", oi.fn, strings.Join(sorts, " "), vc.ssort(oi.rt), oi.fn0(), strings.Join(sorts, " "), vc.ssort(oi.rt)))
		oi.ready = true
	}
	for _, oi := range work {
		body, _ := vc.translateOpaqueBody(oi)
		var vars, as []string
		for _, k := range oi.comps {
			vars = append(vars, fmt.Sprintf("(%s %s)", sym("h."+k), oi.csort[k]))
			as = append(as, sym("h."+k))
		}
		for i, p := range oi.ps {
			vars = append(vars, fmt.Sprintf("(%s %s)", sym("a."+p.Name), oi.sorts[i]))
			as = append(as, sym("a."+p.Name))
		}
		lhs := app(oi.fn, as...)
		// one-level unfolding: applications written in contracts unfold once; the recursive
		// occurrences in the body are zero-fuel applications, which are only known to equal the
		// corresponding unfoldable application when that one exists (e.g. from a callee's contract)
		vc.reg.emit(fmt.Sprintf("(assert (forall (%s) (! (and (= %s %s) (= %s %s)) :pattern (%s))))", strings.Join(vars, " "), lhs, body, lhs, app(oi.fn0(), as...), lhs))
	}
	if len(vc.opqWork) > 0 {
		vc.settleOpaque()
	}
}

func (c *sctx) opaqueApp(d *Decl, recv *binding, args []Expr, at Expr) (Term, *SType) {
	vc := c.vc
	oi := c.opaqueInfoOf(d)
	if !c.cur.symbolic && !oi.ready {
		vc.settleOpaque()
	}
	var as []Term
	if c.cur.symbolic && !oi.ready {
		// inside the fixpoint: use (and thereby record) what is known so far
		var ks []string
		for k := range oi.csort {
			ks = append(ks, k)
		}
		sort.Strings(ks)
		for _, k := range ks {
			as = append(as, vc.comp(c.cur, k, oi.csort[k]))
		}
	} else {
		for _, k := range oi.comps {
			as = append(as, vc.comp(c.cur, k, oi.csort[k]))
		}
	}
	if recv != nil {
		as = append(as, recv.t)
	}
	for i, a := range args {
		t, ty := c.expr(a)
		k := i
		if recv != nil {
			k++
		}
		t, _, _ = c.unify(t, ty, c.nilOf(oi.pts[k]), oi.pts[k])
		as = append(as, t)
	}
	fn := oi.fn
	if c.cur.symbolic && c.defining != nil && vc.sameSCC(c.defining, oi) {
		fn = oi.fn0()
	}
	return app(fn, as...), oi.rt
}

func (oi *opaqueInfo) fn0() string { return sym("ys.p0." + oi.d.Name) }

// opaque call graph: which opaque functions does the body mention (by name)?
func (vc *VC) opaqueCalls(oi *opaqueInfo) []string {
	var out []string
	for name, ds := range vc.env.pures {
		for _, d := range ds {
			if d.Opaque && mentions(oi.d.Body, name) {
				out = append(out, name)
				break
			}
		}
	}
	sort.Strings(out)
	return out
}

func (vc *VC) opaqueReaches(from, to string, seen map[string]bool) bool {
	if seen[from] {
		return false
	}
	seen[from] = true
	for _, ds := range vc.env.pures[from] {
		if !ds.Opaque {
			continue
		}
		for name, ds2 := range vc.env.pures {
			op := false
			for _, d2 := range ds2 {
				op = op || d2.Opaque
			}
			if !op || !mentions(ds.Body, name) {
				continue
			}
			if name == to || vc.opaqueReaches(name, to, seen) {
				return true
			}
		}
	}
	return false
}

// sameSCC: are the two opaque functions mutually recursive (or the same recursive function)?
func (vc *VC) sameSCC(a, b *opaqueInfo) bool {
	key := "scc:" + a.d.Name + ":" + b.d.Name
	if v, ok := vc.uninterp[key]; ok {
		return v == "1"
	}
	r := vc.opaqueReaches(a.d.Name, b.d.Name, map[string]bool{}) && vc.opaqueReaches(b.d.Name, a.d.Name, map[string]bool{})
	if r {
		vc.uninterp[key] = "1"
	} else {
		vc.uninterp[key] = "0"
	}
	return r
}

// useAxiomsFor adds the axioms that mention an extern function (once).
func (vc *VC) useAxiomsFor(name string) {
	key := "axioms:" + name
	if _, ok := vc.uninterp[key]; ok {
		return
	}
	vc.uninterp[key] = "1"
	for _, a := range vc.env.axioms {
		if mentions(a.Body, name) {
			k2 := fmt.Sprintf("axiom:%s:%d", a.P.File, a.P.Line)
			if _, ok := vc.uninterp[k2]; ok {
				continue
			}
			vc.uninterp[k2] = "1"
			n := &sctx{vc: vc, cur: vc.entry, old: vc.entry, vars: map[string]binding{}, names: map[string]binding{}}
			save := len(vc.facts)
			t := n.formula(a.Body)
			_ = save
			vc.reg.emit("(assert "+t+")")
		}
	}
}

func mentions(e Expr, name string) bool {
	found := false
	var walk func(e Expr)
	walk = func(e Expr) {
		if e == nil || found {
			return
		}
		switch x := e.(type) {
		case *EIdent:
			if x.Name == name {
				found = true
			}
		case *EUnary:
			walk(x.X)
		case *EBinary:
			walk(x.L)
			walk(x.R)
		case *ECond:
			walk(x.C)
			walk(x.A)
			walk(x.B)
		case *ECall:
			walk(x.Fun)
			for _, a := range x.Args {
				walk(a)
			}
		case *ESel:
			walk(x.X)
		case *EIndex:
			walk(x.X)
			walk(x.I)
		case *ESlice:
			walk(x.X)
			walk(x.Lo)
			walk(x.Hi)
		case *EQuant:
			walk(x.Body)
			for _, tr := range x.Triggers {
				for _, t := range tr {
					walk(t)
				}
			}
		case *ELet:
			walk(x.Val)
			walk(x.Body)
		case *ESeqLit:
			for _, a := range x.Elems {
				walk(a)
			}
		}
	}
	walk(e)
	return found
}

// ---- modifies targets ---------------------------------------------------------------------------------

type modTarget struct {
	comp  string
	sort  string
	ref   Term
	whole bool
}

// modTargets resolves one lvalue of a modifies clause (evaluated in the given state).
func (c *sctx) modTargets(e Expr) []modTarget {
	vc := c.vc
	switch x := e.(type) {
	case *EIdent:
		if gt, ok := vc.ghostLocals[x.Name]; ok {
			return []modTarget{{comp: "L." + x.Name, sort: c.sortOf(gt), whole: true}}
		}
		if g, ok := vc.env.gvars[x.Name]; ok {
			gt := vc.resolveType(g.RetType, nil, nil)
			return []modTarget{{comp: "G.var." + x.Name, sort: c.sortOf(gt), whole: true}}
		}
		// a Go package-level variable of the contract's package (written by the package initialiser only):
		// its box location; "initguard" names the initialiser's own once-flag
		if c.pkg != nil {
			if sp := vc.env.byPath[c.pkg.Path()]; sp != nil {
				name := x.Name
				if name == "initguard" {
					name = "init$guard"
				}
				if g, ok := sp.Members[name].(*ssa.Global); ok {
					comp, cs := vc.boxComp(deref(g.Type()))
					return []modTarget{{comp: comp, sort: cs, ref: vc.globalRef(g)}}
				}
			}
		}
	case *EUnary:
		if x.Op == "*" {
			p, pt := c.expr(x.X)
			el := pt.Go.Underlying().(*types.Pointer).Elem()
			return c.objTargets(el, p)
		}
	case *ECall:
		if id, ok := x.Fun.(*EIdent); ok {
			switch id.Name {
			case "elems":
				t, ty := c.expr(x.Args[0])
				sl, ok := ty.Go.Underlying().(*types.Slice)
				if !ok {
					panic(specErr(e, "elems() needs a slice"))
				}
				comp, cs := vc.elemsComp(sl.Elem())
				return []modTarget{{comp: comp, sort: cs, ref: app("ys.arr", t)}}
			case "mapcontent":
				t, ty := c.expr(x.Args[0])
				m, ok := ty.Go.Underlying().(*types.Map)
				if !ok {
					panic(specErr(e, "mapcontent() needs a map"))
				}
				d, v, ds, vs := vc.mapComps(m)
				return []modTarget{{comp: d, sort: ds, ref: t}, {comp: v, sort: vs, ref: t}}
			case "chanstate":
				t, _ := c.expr(x.Args[0])
				return []modTarget{{comp: "H.chancnt", sort: "(Array Int Int)", ref: t}}
			case "all": // all(Type.field) / all(pkg.Type.field): the whole component
				s, ok := x.Args[0].(*ESel)
				if !ok {
					panic(specErr(e, "all() needs Type.field"))
				}
				return c.wholeField(s)
			case "fields": // every field of the object p points to
				p, pt := c.expr(x.Args[0])
				el := pt.Go.Underlying().(*types.Pointer).Elem()
				return c.objTargets(el, p)
			}
		}
	case *ESel:
		// p.f : one field of one object; Type.f : whole component
		if id, ok := x.X.(*EIdent); ok {
			if _, isVar := c.lookupAny(id.Name); !isVar {
				return c.wholeField(x)
			}
		}
		p, pt := c.expr(x.X)
		ptr, ok := pt.Go.Underlying().(*types.Pointer)
		if !ok {
			panic(specErr(e, "modifies %s.%s: not a pointer", pt, x.Name))
		}
		st := ptr.Elem()
		if s, ok := st.Underlying().(*types.Struct); ok {
			for i := 0; i < s.NumFields(); i++ {
				f := s.Field(i)
				if f.Name() != x.Name {
					continue
				}
				inner, isStruct := vc.isInnerField(st, f)
				switch {
				case isStruct:
					return c.objTargets(f.Type(), vc.innerRef(st, f.Name(), p))
				case inner:
					comp, cs := vc.boxComp(f.Type())
					return []modTarget{{comp: comp, sort: cs, ref: vc.innerRef(st, f.Name(), p)}}
				}
				comp, cs := vc.fieldComp(st, f)
				return []modTarget{{comp: comp, sort: cs, ref: p}}
			}
		}
		if g := vc.ghostField(st, x.Name); g != nil {
			gty := vc.resolveGhostType(g, st)
			return []modTarget{{comp: vc.ghostComp(st, x.Name), sort: "(Array Int " + c.sortOf(gty) + ")", ref: p}}
		}
		panic(specErr(e, "modifies: %s has no field %s", typeKey(st), x.Name))
	}
	panic(specErr(e, "unsupported modifies target"))
}

func (c *sctx) wholeField(x *ESel) []modTarget {
	vc := c.vc
	var te *TypeExpr
	if q, ok := x.X.(*ESel); ok { // pkg.Type.field
		te = &TypeExpr{Kind: "name", Pkg: q.X.(*EIdent).Name, Name: q.Name}
	} else {
		te = &TypeExpr{Kind: "name", Name: x.X.(*EIdent).Name}
	}
	id := &EIdent{Name: te.String()}
	ty := vc.resolveType(te, c.pkg, c.tenv)
	st := ty.Go
	if s, ok := st.Underlying().(*types.Struct); ok {
		for i := 0; i < s.NumFields(); i++ {
			f := s.Field(i)
			if f.Name() == x.Name {
				comp, cs := vc.fieldComp(st, f)
				if inner, _ := vc.isInnerField(st, f); inner {
					comp, cs = vc.boxComp(f.Type())
				}
				return []modTarget{{comp: comp, sort: cs, whole: true}}
			}
		}
	}
	if g := vc.ghostField(st, x.Name); g != nil {
		gty := vc.resolveGhostType(g, st)
		return []modTarget{{comp: vc.ghostComp(st, x.Name), sort: "(Array Int " + c.sortOf(gty) + ")", whole: true}}
	}
	panic(specErr(x, "no field %s.%s", id.Name, x.Name))
}

// objTargets: all locations of the object of type t at ref.
func (c *sctx) objTargets(t types.Type, ref Term) []modTarget {
	vc := c.vc
	var out []modTarget
	switch u := t.Underlying().(type) {
	case *types.Struct:
		if !isExternalStruct(t) {
			for i := 0; i < u.NumFields(); i++ {
				f := u.Field(i)
				inner, isStruct := vc.isInnerField(t, f)
				switch {
				case isStruct:
					out = append(out, c.objTargets(f.Type(), vc.innerRef(t, f.Name(), ref))...)
				case inner:
					comp, cs := vc.boxComp(f.Type())
					out = append(out, modTarget{comp: comp, sort: cs, ref: vc.innerRef(t, f.Name(), ref)})
				default:
					comp, cs := vc.fieldComp(t, f)
					out = append(out, modTarget{comp: comp, sort: cs, ref: ref})
				}
			}
		}
		for _, g := range vc.ghostFieldsOf(t) {
			gty := vc.resolveGhostType(g, t)
			out = append(out, modTarget{comp: vc.ghostComp(t, g.Name), sort: "(Array Int " + c.sortOf(gty) + ")", ref: ref})
		}
	case *types.Array:
		comp, cs := vc.elemsComp(u.Elem())
		out = append(out, modTarget{comp: comp, sort: cs, ref: ref})
	default:
		comp, cs := vc.boxComp(t)
		out = append(out, modTarget{comp: comp, sort: cs, ref: ref})
	}
	return out
}

// initTarget resolves "p.f" of a track_init clause to (component, ref).
func (c *sctx) initTarget(e Expr) (string, Term) {
	ts := c.modTargets(e)
	if len(ts) != 1 || ts[0].whole {
		panic(specErr(e, "track_init needs a single field"))
	}
	return ts[0].comp, ts[0].ref
}

// regexToSMT translates a small regular-expression syntax to SMT-LIB RegLan:
// literals, [a-z0-9] classes, ( ), |, *, +, ?, \. escapes.
func regexToSMT(re string) Term {
	pos := 0
	var alt func() Term
	var seq func() Term
	var atom func() Term
	alt = func() Term {
		parts := []Term{seq()}
		for pos < len(re) && re[pos] == '|' {
			pos++
			parts = append(parts, seq())
		}
		if len(parts) == 1 {
			return parts[0]
		}
		return app("re.union", parts...)
	}
	seq = func() Term {
		var parts []Term
		for pos < len(re) && re[pos] != '|' && re[pos] != ')' {
			a := atom()
			for pos < len(re) && (re[pos] == '*' || re[pos] == '+' || re[pos] == '?') {
				switch re[pos] {
				case '*':
					a = app("re.*", a)
				case '+':
					a = app("re.+", a)
				case '?':
					a = app("re.opt", a)
				}
				pos++
			}
			parts = append(parts, a)
		}
		switch len(parts) {
		case 0:
			return `(str.to_re "")`
		case 1:
			return parts[0]
		}
		return app("re.++", parts...)
	}
	atom = func() Term {
		ch := re[pos]
		switch ch {
		case '(':
			pos++
			a := alt()
			pos++ // ')'
			return a
		case '[':
			pos++
			var parts []Term
			for pos < len(re) && re[pos] != ']' {
				lo := re[pos]
				if lo == '\\' {
					pos++
					lo = re[pos]
				}
				if pos+2 < len(re) && re[pos+1] == '-' && re[pos+2] != ']' {
					hi := re[pos+2]
					parts = append(parts, app("re.range", strLit(string(lo)), strLit(string(hi))))
					pos += 3
				} else {
					parts = append(parts, app("str.to_re", strLit(string(lo))))
					pos++
				}
			}
			pos++
			if len(parts) == 1 {
				return parts[0]
			}
			return app("re.union", parts...)
		case '.':
			pos++
			return "re.allchar"
		case '\\':
			pos++
			ch = re[pos]
			pos++
			return app("str.to_re", strLit(string(ch)))
		}
		pos++
		return app("str.to_re", strLit(string(ch)))
	}
	return alt()
}

var connectiveHeads = []string{"(ite ", "(and ", "(or ", "(not ", "(=> ", "(= ", "(< ", "(<= ", "(> ", "(>= ", "(+ ", "(- ", "(* "}

func hasConnective(t Term) bool {
	for _, h := range connectiveHeads {
		if strings.Contains(t, h) {
			return true
		}
	}
	return false
}

// patternSubterms: the maximal subterms of t that are applications without connectives or arithmetic and that
// mention every bound variable.
func patternSubterms(t Term, bound []string) []Term {
	var out []Term
	seen := map[Term]bool{}
	var walk func(t Term)
	walk = func(t Term) {
		if len(t) == 0 || t[0] != '(' {
			return
		}
		if !hasConnective(t) {
			all := true
			for _, b := range bound {
				if !strings.Contains(t, b+" ") && !strings.Contains(t, b+")") {
					all = false
				}
			}
			if all && !seen[t] {
				seen[t] = true
				out = append(out, t)
			}
			return
		}
		for _, k := range splitTop(t)[1:] {
			walk(k)
		}
	}
	walk(t)
	if len(out) > 4 {
		out = out[:4]
	}
	return out
}
