package main

type boundedViolation struct {
	name string
	body map[string]any
}

func runBounded(repo, root, b, id, tier string, seed int, overlay map[string][]byte, findings []Finding, known *[]string) (map[string]any, []boundedViolation) {
	return map[string]any{"id": b, "status": "not built"}, nil
}
