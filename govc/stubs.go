package main

import (
	"bufio"
	"bytes"
	"encoding/json"
	"fmt"
	"os"
	"os/exec"
	"path/filepath"
	"strings"
	"time"
)

// Bounded stand-ins (DESIGN 5): Go test files kept in /verif/bounded, injected into a package of the
// real code with `go test -overlay` (nothing is written to /repo). Each checks the *assumed contract*
// of one function that is outside the verifier's subset on an enumerated input family with a stated
// bound. They are labelled bounded in the evidence and never counted as proved.

type boundedViolation struct {
	name string
	body map[string]any
}

type boundedCfg struct {
	ID       string `json:"id"`
	StandsIn string `json:"stands_in_for"`
	Contract string `json:"contract"`
	PkgDir   string `json:"pkg_dir"` // relative to the repository root
	File     string `json:"file"`    // Go test source under /verif/bounded
	Test     string `json:"test"`    // test function name
	Bound    string `json:"bound"`
}

// runBounded protocol: the test prints lines
//   BOUNDED-CASES <n> exhaustive=<bool> distinct=<m>
//   BOUNDED-SAMPLE <json>
//   BOUNDED-FINDING <finding-id> <text>       (a violation matching a recorded finding's class)
//   BOUNDED-VIOLATION <name> <json input>     (an input that violates the contract)
func runBounded(repo, root, b, id, tier string, seed int, overlay map[string][]byte, findings []Finding, known *[]string) (map[string]any, []boundedViolation) {
	info := map[string]any{"id": b, "bounded": true}
	// "B-x:mode" runs the stand-in in a named mode (the part of its contract this property relies on)
	mode := ""
	if i := strings.IndexByte(b, ':'); i >= 0 {
		b, mode = b[:i], b[i+1:]
		info["mode"] = mode
	}
	data, err := os.ReadFile(filepath.Join(root, "bounded", b+".json"))
	if err != nil {
		info["status"] = "not built"
		return info, nil
	}
	var cfg boundedCfg
	if err := json.Unmarshal(data, &cfg); err != nil {
		info["status"] = "bad configuration: " + err.Error()
		return info, nil
	}
	info["stands_in_for"] = cfg.StandsIn
	info["contract_checked"] = cfg.Contract
	info["bound"] = cfg.Bound
	tmp, _ := os.MkdirTemp("", "govc-bounded")
	defer os.RemoveAll(tmp)
	ov := map[string]string{}
	target := filepath.Join(repo, cfg.PkgDir, "zz_bounded_"+strings.ToLower(b)+"_test.go")
	ov[target] = filepath.Join(root, "bounded", cfg.File)
	// a mutant overlay is materialised as files too
	i := 0
	for path, content := range overlay {
		f := filepath.Join(tmp, fmt.Sprintf("ov%d.go", i))
		i++
		os.WriteFile(f, content, 0o644)
		ov[path] = f
	}
	ovData, _ := json.Marshal(map[string]any{"Replace": ov})
	ovFile := filepath.Join(tmp, "overlay.json")
	os.WriteFile(ovFile, ovData, 0o644)
	timeout := "240s"
	if tier == "thorough" {
		timeout = "1500s"
	}
	cmd := exec.Command("go", "test", "-overlay", ovFile, "-vet=off", "-count=1", "-timeout", timeout, "-run", "^"+cfg.Test+"$", "-v", ".")
	cmd.Dir = filepath.Join(repo, cfg.PkgDir)
	cmd.Env = append(os.Environ(), "GOFLAGS=-mod=mod", "GOPROXY=off", "GOSUMDB=off", "GOTOOLCHAIN=local",
		"VERIF_TIER="+tier, fmt.Sprintf("VERIF_SEED=%d", seed), "VERIF_BOUNDED_MODE="+mode)
	var buf bytes.Buffer
	cmd.Stdout = &buf
	cmd.Stderr = &buf
	start := time.Now()
	runErr := cmd.Run()
	info["wall_s"] = time.Since(start).Seconds()
	var viol []boundedViolation
	var samples []any
	sawCases := false
	allOut := buf.String()
	sc := bufio.NewScanner(strings.NewReader(allOut))
	sc.Buffer(make([]byte, 1<<20), 1<<24)
	for sc.Scan() {
		l := strings.TrimSpace(sc.Text())
		switch {
		case strings.HasPrefix(l, "BOUNDED-CASES "):
			sawCases = true
			f := strings.Fields(l)
			var n int
			fmt.Sscan(f[1], &n)
			info["cases"] = n
			for _, kv := range f[2:] {
				if strings.HasPrefix(kv, "exhaustive=") {
					info["exhaustive"] = kv == "exhaustive=true"
				}
				if strings.HasPrefix(kv, "distinct=") {
					var m int
					fmt.Sscan(strings.TrimPrefix(kv, "distinct="), &m)
					info["distinct"] = m
				}
			}
		case strings.HasPrefix(l, "BOUNDED-SAMPLE "):
			if len(samples) < 5 {
				samples = append(samples, strings.TrimPrefix(l, "BOUNDED-SAMPLE "))
			}
		case strings.HasPrefix(l, "BOUNDED-FINDING "):
			f := strings.SplitN(strings.TrimPrefix(l, "BOUNDED-FINDING "), " ", 2)
			matched := false
			for _, fd := range findings {
				if fd.Property == id && fd.Status == "open" && fd.ID == f[0] {
					matched = true
					line := fmt.Sprintf("KNOWN-FINDING: property=%s %s %s %s", id, fd.ID, fd.Obligation, fd.What)
					dup := false
					for _, k := range *known {
						dup = dup || k == line
					}
					if !dup {
						*known = append(*known, line)
					}
				}
			}
			if !matched {
				text := ""
				if len(f) > 1 {
					text = f[1]
				}
				viol = append(viol, boundedViolation{f[0], map[string]any{"input": text, "reason": "violates the contract checked by " + b + " and is not a recorded finding"}})
			}
		case strings.HasPrefix(l, "BOUNDED-VIOLATION "):
			f := strings.SplitN(strings.TrimPrefix(l, "BOUNDED-VIOLATION "), " ", 2)
			text := ""
			if len(f) > 1 {
				text = f[1]
			}
			if len(viol) < 5 {
				viol = append(viol, boundedViolation{f[0], map[string]any{"input": text, "reason": "violates the contract checked by " + b,
					"replay_cmd": fmt.Sprintf("cd %s && go test -overlay <overlay with %s> -vet=off -run '^%s$' -v .", cmd.Dir, cfg.File, cfg.Test)}})
			}
		}
	}
	info["samples"] = samples
	if !sawCases {
		info["status"] = "stand-in did not run to completion"
		viol = append(viol, boundedViolation{"did-not-complete", map[string]any{"reason": fmt.Sprintf("the bounded stand-in %s did not complete (%v): a panic or a timeout on the real code", b, runErr), "output": truncate(allOut, 4000)}})
	} else {
		info["status"] = "completed"
	}
	return info, viol
}
