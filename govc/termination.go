package main

import (
	"fmt"

	"golang.org/x/tools/go/ssa"
)

// terminationVerdicts: structural side of a termination claim. The decrease of each declared variant is
// an ordinary obligation (#dec:k); here every loop is required to have one unless it is a range loop
// (whose trip count is fixed when it starts), and static recursion among the functions is rejected.
func terminationVerdicts(env *Env, vcs []*VC, nLoops, nRange *int) []effectVerdict {
	var out []effectVerdict
	fns := map[*ssa.Function]*VC{}
	for _, vc := range vcs {
		if vc.fn != nil {
			fns[vc.fn] = vc
		}
	}
	for _, vc := range vcs {
		if vc.fn == nil {
			continue
		}
		for _, li := range vc.loops {
			*nLoops++
			pos := env.position(vc.loopPos(li))
			name := fmt.Sprintf("%s#termination:loop%d", vc.key, li.ordinal)
			if isRangeLoop(li) {
				*nRange++
				out = append(out, effectVerdict{name: name, ok: true, why: "range loop", pos: pos})
				continue
			}
			out = append(out, effectVerdict{name: name, ok: li.dec != nil, why: "loop without a variant (decreases clause): its termination is not shown", pos: pos})
		}
	}
	// static call cycles
	callees := func(f *ssa.Function) []*ssa.Function {
		var cs []*ssa.Function
		for _, b := range f.Blocks {
			for _, in := range b.Instrs {
				if c, ok := in.(ssa.CallInstruction); ok {
					if g, ok := c.Common().Value.(*ssa.Function); ok && fns[g] != nil {
						cs = append(cs, g) // cycles among the listed functions (others are used through their contracts)
					}
				}
			}
		}
		return cs
	}
	state := map[*ssa.Function]int{}
	var cyc func(f *ssa.Function) *ssa.Function
	cyc = func(f *ssa.Function) *ssa.Function {
		state[f] = 1
		for _, g := range callees(f) {
			if state[g] == 1 {
				return g
			}
			if state[g] == 0 {
				if r := cyc(g); r != nil {
					return r
				}
			}
		}
		state[f] = 2
		return nil
	}
	for f, vc := range fns {
		if state[f] != 0 {
			continue
		}
		if g := cyc(f); g != nil {
			out = append(out, effectVerdict{name: vc.key + "#termination:recursion", ok: false, why: "static call cycle through " + funcKey(g) + ": no variant for recursion", pos: env.position(f.Pos())})
		}
	}
	return out
}

// isRangeLoop: the header advances a hidden range index (slices, arrays) or a range iterator (maps, strings).
func isRangeLoop(li *loopInfo) bool {
	for _, in := range li.header.Instrs {
		switch x := in.(type) {
		case *ssa.Next:
			return true
		case *ssa.Store:
			if a, ok := x.Addr.(*ssa.Alloc); ok && a.Comment == "rangeindex" {
				return true
			}
		}
	}
	return false
}
