package main

import (
	"fmt"
	"go/token"
	"go/types"
	"sort"
	"strings"

	"golang.org/x/tools/go/ssa"
)

// State is the symbolic store at a program point.
type State struct {
	cells map[*ssa.Alloc]Term // non-escaping locals (registers)
	comps map[string]Term     // heap and ghost components; a missing key means "value at function entry"
	// a symbolic state stands for "any state": every component read is a bound variable of the
	// definitional axiom of an opaque spec function, and is recorded
	symbolic bool
	rec      map[string]string
}

func (s *State) clone() *State {
	n := &State{cells: make(map[*ssa.Alloc]Term, len(s.cells)), comps: make(map[string]Term, len(s.comps))}
	for k, v := range s.cells {
		n.cells[k] = v
	}
	for k, v := range s.comps {
		n.comps[k] = v
	}
	return n
}

type pstep struct {
	field int
	idx   Term // "" for field steps
	styp  types.Type
}

const (
	lvCell = iota
	lvHeap
	lvElem
)

// LV is a symbolic location: the denotation of an address that is used immediately.
type LV struct {
	kind int
	cell *ssa.Alloc
	comp string
	ref  Term
	idx  Term
	off  Term // lvElem through a slice: offset and relative index (idx = off + rel)
	rel  Term
	path []pstep
	typ  types.Type // type of the content at the end of the path
	base types.Type // type of the content at the base location
}

type Obligation struct {
	Name    string
	Class   string // pre ensures inv-init inv-pres dec frame safe assert capture cover effect init
	Label   string
	Func    string
	Pos     string
	FactIdx int
	DeclIdx int
	Block   int
	Guard   Term
	Goal    Term
	Witness []namedTerm // terms whose model values describe a counterexample
	Result  *solveResult
	Expect  string // "" (must discharge) | "fail" (canary / cover: must NOT discharge)
}

// fact is one assertion of a query. Assumptions carry the block they were made in: an obligation
// uses only the assumptions of blocks that can reach its own block in the loop-cut DAG (the others
// are guarded by a reachability condition that is false on every path through the obligation).
type fact struct {
	text  string
	block int // -1: definition or global fact, always included
}

type namedTerm struct {
	Name string
	T    Term
	Sort string
}

// VC is the verification of one function.
type VC struct {
	env   *Env
	fn    *ssa.Function
	key   string
	decl  *Decl
	reg   *sortReg
	decls []string
	facts []fact
	obls  []*Obligation
	reachable map[[2]int]bool // DAG reachability between blocks (back edges removed)
	safeSeen  map[string][]*ssa.BasicBlock
	nonNil    map[Term]bool // references known to be non-nil (fresh allocations)
	n     int

	compSort map[string]string
	compInit map[string]Term
	entry    *State
	vals     map[ssa.Value]Term
	tuples   map[ssa.Value][]Term
	lvs      map[ssa.Value]*LV
	rangeOf  map[ssa.Value]*rangeInfo
	reach    map[*ssa.BasicBlock]Term
	exit     map[*ssa.BasicBlock]*State
	edgeCond map[[2]int]Term
	cur      *State
	curReach Term
	curBlock *ssa.BasicBlock

	arith     string // checked | wrap | unchecked
	floatMode string // ieee | opaque
	params    map[string]binding
	results   []Param
	counters  map[string]int
	callCount map[string]int
	externals map[string]bool // external functions used through a written contract
	defaults  map[string]bool // calls that got the default external contract
	assumes   map[string]bool // assumptions to report
	loops     []*loopInfo
	loopAt    map[*ssa.BasicBlock]*loopInfo
	recDepth  int
	trackInit []string          // components under init-before-read tracking
	uninterp  map[string]string // declared uninterpreted helpers
	witness   []namedTerm
	rets      int
	retReach  []Term
	failed    error
	carved    bool // known-finding carve-outs are assumed as extra preconditions
	ghostLocals map[string]*SType
	callPre     *State // state before the call being processed (before(e) in anchored ghost code)
	usedAnchors map[*Clause]bool
	refPaths    map[string][]string // components of struct values: selector terms of their reference-typed fields
	refComps    map[string]int // components holding references: 1 = (Array Int Ref), 2 = (Array Int (Array Int Ref))
	curArgs     map[string]binding // arg0, arg1, ... of the call being processed (for anchored ghost code)
	opq         map[*Decl]*opaqueInfo
	opqWork     []*opaqueInfo
	inl         []*inlineFrame    // callees without a contract being inlined (innermost last)
	inlBlock    *ssa.BasicBlock   // block of the outermost call being inlined: facts and obligations are tagged with it
}

type rangeInfo struct {
	x     ssa.Value
	isMap bool
	seen  Term // set term (map ranges)
	pos   Term // string ranges: current byte position
}

type binding struct {
	t   Term
	typ *SType
	lv  *LV // for names bound to a local cell: read at translation time
}

type loopInfo struct {
	header  *ssa.BasicBlock
	blocks  map[*ssa.BasicBlock]bool
	ordinal int
	invs    []*Clause
	dec     *Clause
	mods    []*Clause
	decAt   Term // value of the variant at the head of an arbitrary iteration
	headSt  *State
	comps   []string
	frameAllowed map[string][]Term
	frameWhole   map[string]bool
	framePre     *State
	seen         string // component holding the seen-set of the map range driven by this loop
	backReach    []Term // reach conditions of the back edges (vacuity cover)
}

func (vc *VC) freshName(prefix string) string {
	vc.n++
	return sym(fmt.Sprintf("%s!%d", prefix, vc.n))
}

func (vc *VC) fresh(prefix, sort string) Term {
	n := vc.freshName(prefix)
	vc.decls = append(vc.decls, fmt.Sprintf("(declare-const %s %s)", n, sort))
	return n
}

func isAtom(t Term) bool {
	return !strings.ContainsAny(t, " (") || (strings.HasPrefix(t, "(- ") && !strings.ContainsAny(t[3:len(t)-1], " ("))
}

// define introduces a name for a term (keeps queries linear in the size of the function).
func (vc *VC) define(prefix, sort string, t Term) Term {
	if isAtom(t) {
		return t
	}
	n := vc.fresh(prefix, sort)
	vc.facts = append(vc.facts, fact{fmt.Sprintf("(assert (= %s %s))", n, t), -1})
	return n
}

func (vc *VC) assume(t Term) {
	if t == "true" {
		return
	}
	// one fact per conjunct: premise selection can then pick the relevant ones
	if cs := conjuncts(t); len(cs) > 1 {
		for _, c := range cs {
			vc.assume(c)
		}
		return
	}
	b := -1
	if vc.curBlock != nil && vc.curReach != "true" {
		b = vc.tagBlock().Index
	}
	vc.facts = append(vc.facts, fact{fmt.Sprintf("(assert %s)", implies(vc.curReach, t)), b})
}

func (vc *VC) assumeGlobal(t Term) {
	if t == "true" {
		return
	}
	if cs := conjuncts(t); len(cs) > 1 {
		for _, c := range cs {
			vc.assumeGlobal(c)
		}
		return
	}
	vc.facts = append(vc.facts, fact{fmt.Sprintf("(assert %s)", t), -1})
}

// tagBlock: the block of the function under verification that facts and obligations belong to
// (inside an inlined callee: the block of the call).
func (vc *VC) tagBlock() *ssa.BasicBlock {
	if len(vc.inl) > 0 {
		return vc.inlBlock
	}
	return vc.curBlock
}

func (vc *VC) ordinal(class string) int {
	vc.counters[class]++
	return vc.counters[class] - 1
}

func (vc *VC) oblige(class, label string, goal Term, pos token.Pos) *Obligation {
	// a conjunction is split into one obligation per conjunct (earlier conjuncts may be used for
	// later ones): smaller queries, and a failure names the clause that fails
	switch class {
	case "ensures", "pre", "inv-init", "inv-pres", "assert", "capture":
		if cs := conjuncts(goal); len(cs) > 1 {
			var first *Obligation
			saved := len(vc.facts)
			for i, c := range cs {
				o := vc.oblige1(class, fmt.Sprintf("%s/%d", label, i), c, pos)
				if first == nil {
					first = o
				}
				if class == "ensures" || class == "inv-init" || class == "inv-pres" {
					vc.assume(c)
				}
			}
			_ = saved
			return first
		}
	}
	return vc.oblige1(class, label, goal, pos)
}

func (vc *VC) oblige1(class, label string, goal Term, pos token.Pos) *Obligation {
	name := vc.key + "#" + class
	if label != "" {
		name += ":" + label
	}
	o := &Obligation{Name: name, Class: class, Label: label, Func: vc.key, Pos: vc.env.position(pos),
		FactIdx: len(vc.facts), DeclIdx: len(vc.decls), Guard: vc.curReach, Goal: goal, Block: -1}
	if vc.curBlock != nil {
		o.Block = vc.tagBlock().Index
	}
	if len(vc.inl) > 0 {
		// an obligation of an inlined callee: named after the callee, numbered per inlining
		o.Name = vc.key + "#" + class + ":" + vc.inl[len(vc.inl)-1].prefix + label
	}
	if goal == "true" && class != "cover" {
		// trivially true: not recorded
		return nil
	}
	o.Witness = append(o.Witness, vc.witness...)
	vc.obls = append(vc.obls, o)
	switch class {
	case "safe", "pre", "assert", "effect", "init", "capture":
		// execution continues only if the check passed
		vc.assume(goal)
	}
	return o
}

func (vc *VC) safe(kind string, goal Term, pos token.Pos) {
	if goal == "true" || (kind == "nil" && vc.nonNil[goal]) {
		return
	}
	// the same check already made in a dominating block need not be repeated
	if vc.curBlock != nil {
		if vc.safeSeen == nil {
			vc.safeSeen = map[string][]*ssa.BasicBlock{}
		}
		for _, b := range vc.safeSeen[goal] {
			if b == vc.curBlock || b.Dominates(vc.curBlock) {
				return
			}
		}
		vc.safeSeen[goal] = append(vc.safeSeen[goal], vc.curBlock)
	}
	k := vc.ordinal("safe:" + kind)
	vc.oblige("safe", fmt.Sprintf("%s@%d", kind, k), goal, pos)
}

// ---- components ---------------------------------------------------------------------------------

func (vc *VC) comp(st *State, name, sort string) Term {
	if st.symbolic {
		st.rec[name] = sort
		return sym("h." + name)
	}
	if t, ok := st.comps[name]; ok {
		return t
	}
	return vc.compEntry(name, sort)
}

func (vc *VC) compEntry(name, sort string) Term {
	if t, ok := vc.compInit[name]; ok {
		return t
	}
	n := sym(name + "@0")
	vc.decls = append(vc.decls, fmt.Sprintf("(declare-const %s %s)", n, sort))
	vc.compSort[name] = sort
	vc.compInit[name] = n
	vc.assumeCompValid(n, sort, true)
	vc.assumeRefsValid(name, n, n0next, true)
	return n
}

const n0next = "H.next@0"

// assumeRefsValid: every reference held in a (fresh or entry) component denotes an allocated object
// (Go's memory safety): it is below the allocation counter of that moment.
func (vc *VC) assumeRefsValid(name string, comp Term, next Term, global bool) {
	var f Term
	switch vc.refComps[name] {
	// Only the fields of objects that exist are constrained: the slot of a not yet allocated object holds the
	// value the object will be given (a callee's fresh result keeps its fields there), which may well be a
	// reference that does not exist yet.
	case 1:
		f = fmt.Sprintf("(forall ((r Int)) (! (=> (and (< 0 (ys.root r)) (< (ys.root r) %s)) (< (select %s r) %s)) :pattern ((select %s r))))", next, comp, next, comp)
	case 2:
		f = fmt.Sprintf("(forall ((r Int) (k Int)) (! (=> (and (< 0 (ys.root r)) (< (ys.root r) %s)) (< (select (select %s r) k) %s)) :pattern ((select (select %s r) k))))", next, comp, next, comp)
	default:
		if vc.compSort[name] == "(Array Int ys.Slice)" && vc.entryObjectsExist() {
			// a slice held in a field of an object that exists refers to an array that exists
			f = fmt.Sprintf("(forall ((r Int)) (! (=> (and (< 0 (ys.root r)) (< (ys.root r) %s)) (< (ys.arr (select %s r)) %s)) :pattern ((select %s r))))", next, comp, next, comp)
			break
		}
		if paths := vc.refPaths[name]; len(paths) > 0 {
			// references held in struct values stored in slices / arrays
			var cs []Term
			for _, p := range paths {
				cs = append(cs, app("<", strings.ReplaceAll(p, "@@X@@", fmt.Sprintf("(select (select %s r) k)", comp)), next))
			}
			f = fmt.Sprintf("(forall ((r Int) (k Int)) (! (=> (and (< 0 (ys.root r)) (< (ys.root r) %s)) %s) :pattern ((select (select %s r) k))))", next, and(cs...), comp)
			break
		}
		return
	}
	if name == compNext {
		return
	}
	if global {
		if next == n0next {
			vc.compEntry(compNext, sInt)
		}
		vc.assumeGlobal(f)
	} else {
		vc.assume(f)
	}
}

// assumeCompValid states Go's type invariant for every slice held in a (fresh or entry) heap
// component: 0 <= off, 0 <= len <= cap. Values built by the code satisfy it by construction.
func (vc *VC) assumeCompValid(comp Term, sort string, global bool) {
	var f Term
	switch sort {
	case "(Array Int ys.Slice)":
		f = fmt.Sprintf("(forall ((r Int)) (! (and (<= 0 (ys.off (select %s r))) (<= 0 (ys.len (select %s r))) (<= (ys.len (select %s r)) (ys.cap (select %s r)))) :pattern ((select %s r))))", comp, comp, comp, comp, comp)
	case "ys.Slice":
		f = and(app("<=", "0", app("ys.off", comp)), app("<=", "0", app("ys.len", comp)), app("<=", app("ys.len", comp), app("ys.cap", comp)))
	default:
		return
	}
	if global {
		vc.assumeGlobal(f)
	} else {
		vc.assume(f)
	}
}

func (vc *VC) setComp(st *State, name, sort string, t Term) {
	vc.compEntry(name, sort)
	st.comps[name] = vc.define(compPrefix(name), sort, t)
}

func compPrefix(name string) string {
	return strings.Map(func(r rune) rune {
		if r == '|' || r == '\\' {
			return '!'
		}
		return r
	}, name)
}

const compNext = "H.next"

func (vc *VC) next(st *State) Term { return vc.comp(st, compNext, sInt) }

func isRefType(t types.Type) bool {
	if isTypeParam(t) {
		return false
	}
	switch t.Underlying().(type) {
	case *types.Pointer, *types.Map, *types.Chan:
		return true
	}
	return false
}

func (vc *VC) noteRef(name string, t types.Type, nested bool) {
	if vc.refComps == nil {
		vc.refComps = map[string]int{}
	}
	if isRefType(t) {
		if nested {
			vc.refComps[name] = 2
		} else {
			vc.refComps[name] = 1
		}
	}
}

func (vc *VC) fieldComp(st types.Type, f *types.Var) (string, string) {
	n := "H." + typeKey(st) + "." + f.Name()
	vc.noteRef(n, f.Type(), false)
	return n, "(Array Int " + vc.reg.sortOf(f.Type()) + ")"
}

func (vc *VC) boxComp(t types.Type) (string, string) {
	n := "H.box." + typeKey(t)
	vc.noteRef(n, t, false)
	return n, "(Array Int " + vc.reg.sortOf(t) + ")"
}

func (vc *VC) elemsComp(t types.Type) (string, string) {
	n := "H.elems." + typeKey(t)
	vc.noteRef(n, t, true)
	if _, isStruct := t.Underlying().(*types.Struct); isStruct && !isExternalStruct(t) {
		if vc.refPaths == nil {
			vc.refPaths = map[string][]string{}
		}
		if _, done := vc.refPaths[n]; !done {
			vc.refPaths[n] = vc.structRefPaths(t, "@@X@@", 0)
		}
	}
	return n, "(Array Int (Array Int " + vc.reg.sortOf(t) + "))"
}

// structRefPaths: terms (over the placeholder X) selecting every reference-typed field of a struct value.
func (vc *VC) structRefPaths(t types.Type, x string, depth int) []string {
	var out []string
	st, ok := t.Underlying().(*types.Struct)
	if !ok || depth > 3 {
		return nil
	}
	vc.reg.sortOf(t)
	k := typeKey(t)
	for i := 0; i < st.NumFields(); i++ {
		f := st.Field(i)
		sel := app(structSel(k, f.Name()), x)
		switch {
		case isRefType(f.Type()):
			out = append(out, sel)
		default:
			if _, ok := f.Type().Underlying().(*types.Struct); ok && !isExternalStruct(f.Type()) {
				out = append(out, vc.structRefPaths(f.Type(), sel, depth+1)...)
			}
			if _, ok := f.Type().Underlying().(*types.Slice); ok {
				out = append(out, app("ys.arr", sel))
			}
		}
	}
	return out
}

func (vc *VC) mapComps(m *types.Map) (dom, val, dsort, vsort string) {
	k := typeKey(m.Key()) + "." + typeKey(m.Elem())
	ks, vs := vc.reg.sortOf(m.Key()), vc.reg.sortOf(m.Elem())
	return "H.mapdom." + k, "H.mapval." + k, "(Array Int (Array " + ks + " Bool))", "(Array Int (Array " + ks + " " + vs + "))"
}

func innerFn(st types.Type, field string) string { return sym("ys.inner." + fieldKey(st, field)) }

// innerRef is the derived reference of an embedded struct field or an address-taken field.
func (vc *VC) innerRef(st types.Type, field string, p Term) Term {
	fn := innerFn(st, field)
	out := sym("ys.outer." + fieldKey(st, field))
	if !vc.reg.have[fn] {
		tag := vc.innerTag(fn)
		// derived references are negative, injective (outer is the inverse), rooted at the enclosing
		// object, and tagged by the field they denote
		vc.reg.decl(fn, fmt.Sprintf("(declare-fun %s (Int) Int)\n(declare-fun %s (Int) Int)\n(assert (forall ((p Int)) (! (and (< (%s p) 0) (= (%s (%s p)) p) (= (ys.root (%s p)) %s) (= (ys.itag (%s p)) %d)) :pattern ((%s p)))))",
			fn, out, fn, out, fn, fn, rootOf("p"), fn, tag, fn))
	}
	return app(fn, p)
}

func (vc *VC) innerTag(fn string) int {
	if !vc.reg.have["ys.itag"] {
		vc.reg.decl("ys.itag", "(declare-fun ys.itag (Int) Int)")
	}
	k := "itag:" + fn
	if v, ok := vc.uninterp[k]; ok {
		var n int
		fmt.Sscan(v, &n)
		return n
	}
	n := 1
	for kk := range vc.uninterp {
		if strings.HasPrefix(kk, "itag:") {
			n++
		}
	}
	vc.uninterp[k] = fmt.Sprint(n)
	return n
}

// rootOf: the object a reference belongs to (itself for ordinary references, the enclosing object for
// derived ones); nil has no root.
func rootOf(p Term) Term { return app("ys.root", p) }

// isInnerField: does field f of struct st live at a derived reference?
func (vc *VC) isInnerField(st types.Type, f *types.Var) (inner bool, isStruct bool) {
	if _, ok := f.Type().Underlying().(*types.Struct); ok {
		return true, true
	}
	return vc.env.addrTaken[fieldKey(st, f.Name())], false
}

func isExternalStruct(t types.Type) bool {
	if n, ok := types.Unalias(t).(*types.Named); ok && n.Obj().Pkg() != nil {
		return !strings.HasPrefix(n.Obj().Pkg().Path(), modulePath)
	}
	return false
}

// loadStruct reads a whole struct value from the heap object at ref.
func (vc *VC) loadStruct(st *State, t types.Type, ref Term) Term {
	s := t.Underlying().(*types.Struct)
	if isExternalStruct(t) {
		panic(unsupported("load of external struct value " + typeKey(t)))
	}
	var fs []Term
	for i := 0; i < s.NumFields(); i++ {
		fs = append(fs, vc.loadField(st, t, s.Field(i), ref))
	}
	vc.reg.sortOf(t)
	return app(structCtor(typeKey(t)), fs...)
}

func (vc *VC) loadField(st *State, t types.Type, f *types.Var, ref Term) Term {
	inner, isStruct := vc.isInnerField(t, f)
	switch {
	case isStruct:
		return vc.loadStruct(st, f.Type(), vc.innerRef(t, f.Name(), ref))
	case inner:
		c, cs := vc.boxComp(f.Type())
		return app("select", vc.comp(st, c, cs), vc.innerRef(t, f.Name(), ref))
	}
	c, cs := vc.fieldComp(t, f)
	return app("select", vc.comp(st, c, cs), ref)
}

func (vc *VC) storeStruct(st *State, t types.Type, ref Term, v Term) {
	s := t.Underlying().(*types.Struct)
	k := typeKey(t)
	vc.reg.sortOf(t)
	for i := 0; i < s.NumFields(); i++ {
		vc.storeField(st, t, s.Field(i), ref, app(structSel(k, s.Field(i).Name()), v))
	}
}

func (vc *VC) storeField(st *State, t types.Type, f *types.Var, ref Term, v Term) {
	inner, isStruct := vc.isInnerField(t, f)
	switch {
	case isStruct:
		vc.storeStruct(st, f.Type(), vc.innerRef(t, f.Name(), ref), v)
	case inner:
		c, cs := vc.boxComp(f.Type())
		vc.setComp(st, c, cs, app("store", vc.comp(st, c, cs), vc.innerRef(t, f.Name(), ref), v))
	default:
		c, cs := vc.fieldComp(t, f)
		vc.setComp(st, c, cs, app("store", vc.comp(st, c, cs), ref, v))
	}
}

// zeroInit initialises a freshly allocated object of type t at ref (ghost fields included).
func (vc *VC) zeroInit(st *State, t types.Type, ref Term) {
	switch u := t.Underlying().(type) {
	case *types.Struct:
		if !isExternalStruct(t) {
			for i := 0; i < u.NumFields(); i++ {
				f := u.Field(i)
				if _, ok := f.Type().Underlying().(*types.Struct); ok {
					vc.zeroInit(st, f.Type(), vc.innerRef(t, f.Name(), ref))
				} else {
					vc.storeField(st, t, f, ref, vc.reg.zero(f.Type()))
				}
			}
		}
		for _, g := range vc.ghostFieldsOf(t) {
			gt := vc.resolveGhostType(g, t)
			c := vc.ghostComp(t, g.Name)
			cs := "(Array Int " + vc.reg.specSort(gt) + ")"
			vc.setComp(st, c, cs, app("store", vc.comp(st, c, cs), ref, vc.specZero(gt)))
		}
	case *types.Array:
		c, cs := vc.elemsComp(u.Elem())
		vc.setComp(st, c, cs, app("store", vc.comp(st, c, cs), ref, vc.reg.zero(t)))
	default:
		c, cs := vc.boxComp(t)
		vc.setComp(st, c, cs, app("store", vc.comp(st, c, cs), ref, vc.reg.zero(t)))
	}
}

func (vc *VC) alloc(st *State) Term {
	r := vc.define("ref", sInt, vc.next(st))
	if vc.nonNil == nil {
		vc.nonNil = map[Term]bool{}
		vc.assumeGlobal(app(">=", vc.compEntry(compNext, sInt), "1"))
	}
	vc.nonNil[r] = true
	vc.nonNil["(not (= "+r+" 0))"] = true
	if st == vc.cur {
		for _, a := range vc.nextAnchors() {
			if a != vc.next(st) {
				vc.assume(app(">=", r, a)) // a new object is fresh with respect to the entry state and enclosing loop heads
			}
		}
	}
	vc.setComp(st, compNext, sInt, app("+", r, "1"))
	return r
}

// ---- ghost fields ---------------------------------------------------------------------------------

func namedOf(t types.Type) *types.Named {
	t = types.Unalias(t)
	if p, ok := t.Underlying().(*types.Pointer); ok {
		if _, isNamed := t.(*types.Named); !isNamed {
			t = types.Unalias(p.Elem())
		}
	}
	n, _ := t.(*types.Named)
	return n
}

func (vc *VC) ghostFieldsOf(t types.Type) []*Decl {
	n := namedOf(t)
	if n == nil {
		return nil
	}
	prefix := qual(n.Obj().Pkg()) + "." + n.Obj().Name() + "."
	var out []*Decl
	for k, d := range vc.env.gfields {
		if strings.HasPrefix(k, prefix) {
			out = append(out, d)
		}
	}
	sort.Slice(out, func(i, j int) bool { return out[i].Name < out[j].Name })
	return out
}

func (vc *VC) ghostField(t types.Type, name string) *Decl {
	n := namedOf(t)
	if n == nil {
		return nil
	}
	return vc.env.gfields[qual(n.Obj().Pkg())+"."+n.Obj().Name()+"."+name]
}

func (vc *VC) ghostComp(t types.Type, field string) string {
	return "G." + typeKey(namedOf(t)) + "." + field
}

func (vc *VC) resolveGhostType(d *Decl, recv types.Type) *SType {
	n := namedOf(recv)
	tenv := map[string]types.Type{}
	if n != nil && n.TypeParams() != nil {
		for i := 0; i < n.TypeParams().Len(); i++ {
			if n.TypeArgs() != nil && i < n.TypeArgs().Len() {
				tenv[n.TypeParams().At(i).Obj().Name()] = n.TypeArgs().At(i)
			} else {
				tenv[n.TypeParams().At(i).Obj().Name()] = n.TypeParams().At(i)
			}
		}
	}
	if n != nil && n.Origin() != n && n.Origin().TypeParams() != nil {
		for i := 0; i < n.Origin().TypeParams().Len(); i++ {
			tenv[n.Origin().TypeParams().At(i).Obj().Name()] = n.TypeArgs().At(i)
		}
	}
	var pkg *types.Package
	if n != nil {
		pkg = n.Obj().Pkg()
	}
	return vc.resolveType(d.RetType, pkg, tenv)
}

func (vc *VC) specZero(t *SType) Term {
	switch t.Kind {
	case "go":
		return vc.reg.zero(t.Go)
	case "seq":
		s := vc.reg.specSort(t)
		return seqFn(s, "empty")
	case "set":
		return fmt.Sprintf("((as const %s) false)", vc.reg.specSort(t))
	case "map":
		return fmt.Sprintf("((as const %s) %s)", vc.reg.specSort(t), vc.specZero(t.Elem))
	case "data", "abstract":
		n := sym("ys.D." + t.Name + ".zero")
		vc.declDatatype(t.Name)
		vc.reg.decl(n, fmt.Sprintf("(declare-const %s %s)", n, vc.reg.specSort(t)))
		return n
	}
	panic(unsupported("zero of " + t.String()))
}

// resolveType turns a type written in a contract into an SType.
func (vc *VC) resolveType(te *TypeExpr, pkg *types.Package, tenv map[string]types.Type) *SType {
	if te == nil {
		return nil
	}
	switch te.Kind {
	case "seq":
		return &SType{Kind: "seq", Elem: vc.resolveType(te.Elem, pkg, tenv)}
	case "set":
		return &SType{Kind: "set", Elem: vc.resolveType(te.Elem, pkg, tenv)}
	case "ptr":
		e := vc.resolveType(te.Elem, pkg, tenv)
		if e.Kind != "go" {
			panic(fmt.Errorf("pointer to spec type %s", e))
		}
		return goT(types.NewPointer(e.Go))
	case "slice":
		e := vc.resolveType(te.Elem, pkg, tenv)
		return goT(types.NewSlice(e.Go))
	case "chan":
		e := vc.resolveType(te.Elem, pkg, tenv)
		return goT(types.NewChan(types.SendRecv, e.Go))
	case "map":
		k, e := vc.resolveType(te.Key, pkg, tenv), vc.resolveType(te.Elem, pkg, tenv)
		if k.Kind == "go" && e.Kind == "go" {
			return goT(types.NewMap(k.Go, e.Go))
		}
		return &SType{Kind: "map", Key: k, Elem: e}
	case "func":
		return goT(types.NewSignatureType(nil, nil, nil, nil, nil, false))
	case "name":
		if te.Pkg == "" {
			if t, ok := tenv[te.Name]; ok {
				return goT(t)
			}
			switch te.Name {
			case "mmap": // mathematical map mmap[K, V]
				if len(te.Args) == 2 {
					return &SType{Kind: "map", Key: vc.resolveType(te.Args[0], pkg, tenv), Elem: vc.resolveType(te.Args[1], pkg, tenv)}
				}
			case "any":
				return goT(types.Universe.Lookup("any").Type())
			case "real":
				return &SType{Kind: "real", Name: "Real"}
			case "error":
				return goT(types.Universe.Lookup("error").Type())
			}
			if o := types.Universe.Lookup(te.Name); o != nil {
				if tn, ok := o.(*types.TypeName); ok {
					return goT(tn.Type())
				}
			}
			if _, ok := vc.env.dtypes[te.Name]; ok {
				return &SType{Kind: "data", Name: te.Name}
			}
			if vc.env.abstract[te.Name] {
				return &SType{Kind: "abstract", Name: te.Name}
			}
			if pkg != nil {
				if o := pkg.Scope().Lookup(te.Name); o != nil {
					return goT(vc.instantiate(o.Type(), te, pkg, tenv))
				}
			}
			// search module packages (shared specs are not tied to a package)
			for _, sp := range vc.env.modulePackages() {
				if o := sp.Pkg.Scope().Lookup(te.Name); o != nil {
					if _, ok := o.(*types.TypeName); ok {
						return goT(vc.instantiate(o.Type(), te, sp.Pkg, tenv))
					}
				}
			}
			panic(fmt.Errorf("unknown type %s", te.Name))
		}
		sp := vc.env.byName[te.Pkg]
		if sp == nil {
			panic(fmt.Errorf("unknown package %s in type %s", te.Pkg, te))
		}
		o := sp.Pkg.Scope().Lookup(te.Name)
		if o == nil {
			panic(fmt.Errorf("unknown type %s", te))
		}
		return goT(vc.instantiate(o.Type(), te, sp.Pkg, tenv))
	}
	panic(fmt.Errorf("cannot resolve type %s", te))
}

func (vc *VC) instantiate(t types.Type, te *TypeExpr, pkg *types.Package, tenv map[string]types.Type) types.Type {
	n, ok := t.(*types.Named)
	if !ok || len(te.Args) == 0 || n.TypeParams() == nil {
		return t
	}
	var targs []types.Type
	for _, a := range te.Args {
		targs = append(targs, vc.resolveType(a, pkg, tenv).Go)
	}
	// the generic itself applied to its own parameters is the origin type
	same := true
	for i, ta := range targs {
		if ta != n.TypeParams().At(i) {
			same = false
		}
	}
	if same {
		return n
	}
	inst, err := types.Instantiate(nil, n, targs, false)
	if err != nil {
		panic(err)
	}
	return inst
}

func (vc *VC) declDatatype(name string) {
	d := vc.env.dtypes[name]
	s := sym("ys.D." + name)
	if vc.reg.have[s] {
		return
	}
	if d == nil {
		vc.reg.decl(s, fmt.Sprintf("(declare-sort %s 0)", s))
		return
	}
	vc.reg.have[s] = true // recursion guard
	var cs []string
	for _, c := range d.Ctors {
		var fs []string
		for _, f := range c.Fields {
			ft := vc.resolveType(f.Type, nil, nil)
			if ft.Kind == "data" || ft.Kind == "abstract" {
				vc.declDatatype(ft.Name)
			}
			fs = append(fs, fmt.Sprintf("(%s %s)", sym("ys.D."+name+"."+f.Name), vc.reg.specSort(ft)))
		}
		if len(fs) == 0 {
			cs = append(cs, "("+sym("ys.C."+c.Name)+")")
		} else {
			cs = append(cs, "("+sym("ys.C."+c.Name)+" "+strings.Join(fs, " ")+")")
		}
	}
	vc.reg.emit(fmt.Sprintf("(declare-datatypes ((%s 0)) ((%s)))", s, strings.Join(cs, " ")))
}
