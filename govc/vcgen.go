package main

import (
	"os"
	"fmt"
	"go/constant"
	"go/token"
	"go/types"
	"math"
	"math/big"
	"sort"
	"strings"

	"golang.org/x/tools/go/ssa"
)

func (vc *VC) ssort(t *SType) string {
	var walk func(t *SType)
	walk = func(t *SType) {
		if t == nil {
			return
		}
		if t.Kind == "data" || t.Kind == "abstract" {
			vc.declDatatype(t.Name)
		}
		walk(t.Elem)
		walk(t.Key)
	}
	walk(t)
	return vc.reg.specSort(t)
}

func newLemmaVC(env *Env, d *Decl) *VC {
	vc := newVCKey(env, nil, d, "lemma:"+d.Pkg+"."+d.Name)
	return vc
}

func newVC(env *Env, fn *ssa.Function, d *Decl) *VC {
	return newVCKey(env, fn, d, funcKey(fn))
}

func newVCKey(env *Env, fn *ssa.Function, d *Decl, key string) *VC {
	vc := &VC{env: env, fn: fn, key: key, decl: d,
		compSort: map[string]string{}, compInit: map[string]Term{},
		vals: map[ssa.Value]Term{}, tuples: map[ssa.Value][]Term{}, lvs: map[ssa.Value]*LV{}, rangeOf: map[ssa.Value]*rangeInfo{},
		reach: map[*ssa.BasicBlock]Term{}, exit: map[*ssa.BasicBlock]*State{}, edgeCond: map[[2]int]Term{},
		arith: "unchecked", floatMode: "opaque", params: map[string]binding{}, counters: map[string]int{}, callCount: map[string]int{},
		externals: map[string]bool{}, defaults: map[string]bool{}, assumes: map[string]bool{}, loopAt: map[*ssa.BasicBlock]*loopInfo{},
		uninterp: map[string]string{}}
	vc.reg = newSortReg(func(s string) { vc.decls = append(vc.decls, s) })
	return vc
}

// generateLemma: a lemma is a contract without code: its ensures clauses are obligations under its
// requires clauses, for all values of its parameters.
func (vc *VC) generateLemma() (err error) {
	defer func() {
		if r := recover(); r != nil {
			switch e := r.(type) {
			case unsupportedErr:
				err = fmt.Errorf("%s: %v", vc.key, e)
			case error:
				err = fmt.Errorf("%s: %v", vc.key, e)
			default:
				panic(r)
			}
			vc.failed = err
		}
	}()
	d := vc.decl
	for _, c := range d.Clauses {
		switch c.Kind {
		case "arith":
			vc.arith = c.Str
		case "float":
			vc.floatMode = c.Str
		}
	}
	vc.entry = &State{cells: map[*ssa.Alloc]Term{}, comps: map[string]Term{}}
	vc.cur = vc.entry
	vc.curReach = "true"
	vc.ghostLocals = map[string]*SType{}
	ctx := vc.ctx(vc.cur, vc.entry)
	for _, p := range d.Params {
		pt := vc.resolveType(p.Type, ctx.pkg, nil)
		t := vc.fresh("p."+p.Name, vc.ssort(pt))
		vc.params[p.Name] = binding{t: t, typ: pt}
		if isGo(pt) {
			vc.assumeValid(t, pt.Go)
		}
		vc.witness = append(vc.witness, namedTerm{p.Name, t, vc.ssort(pt)})
	}
	ctx = vc.ctx(vc.cur, vc.entry)
	for _, c := range d.Clauses {
		if c.Kind == "requires" {
			vc.assumeGlobal(ctx.formula(c.E))
		}
	}
	vc.oblige("cover", "precondition-satisfiable", "false", token.NoPos).Expect = "fail"
	for i, c := range d.Clauses {
		if c.Kind == "ensures" {
			vc.oblige("ensures", labelOr(c.Label, i), ctx.formula(c.E), token.NoPos)
		}
	}
	return nil
}

// generate builds all obligations of the function. Panics of kind unsupportedErr / error are
// turned into vc.failed.
func (vc *VC) generate() (err error) {
	defer func() {
		if r := recover(); r != nil {
			switch e := r.(type) {
			case unsupportedErr:
				err = fmt.Errorf("%s: %v", vc.key, e)
			case error:
				err = fmt.Errorf("%s: %v", vc.key, e)
			default:
				panic(r)
			}
			vc.failed = err
		}
	}()
	fn := vc.fn
	if len(fn.Blocks) == 0 {
		return fmt.Errorf("%s: no body", vc.key)
	}
	d := vc.decl
	for _, c := range d.Clauses {
		switch c.Kind {
		case "arith":
			vc.arith = c.Str
		case "float":
			vc.floatMode = c.Str
		}
	}
	vc.entry = &State{cells: map[*ssa.Alloc]Term{}, comps: map[string]Term{}}
	vc.cur = vc.entry
	vc.curReach = "true"
	vc.ghostLocals = map[string]*SType{}
	// next >= 1
	vc.assumeGlobal(app(">=", vc.next(vc.entry), "1"))
	// parameters (receiver first), bound positionally to the contract's names
	var names []Param
	if d.Recv != nil {
		names = append(names, *d.Recv)
	}
	names = append(names, d.Params...)
	nparams := len(fn.Params)
	if len(names) != nparams {
		return fmt.Errorf("%s#binding: contract lists %d parameters, function has %d", vc.key, len(names), nparams)
	}
	for i, p := range fn.Params {
		t := vc.fresh("p."+names[i].Name, vc.reg.sortOf(p.Type()))
		vc.vals[p] = t
		vc.params[names[i].Name] = binding{t: t, typ: goT(p.Type())}
		vc.assumeValid(t, p.Type())
		if _, isPtr := p.Type().Underlying().(*types.Pointer); isPtr && vc.entryObjectsExist() {
			// a non-nil pointer parameter points into an object that exists at entry (the guard of the validity facts
			// about the fields of existing objects); stated only for contracts that ask for it (clause
			// entry_objects_exist), so that the queries of the other functions stay what they were
			vc.assume(implies(not(eq(t, "0")), and(app("<", "0", app("ys.root", t)), app("<", app("ys.root", t), vc.next(vc.entry)))))
		}
		vc.witness = append(vc.witness, namedTerm{names[i].Name, t, vc.reg.sortOf(p.Type())})
	}
	for _, fv := range fn.FreeVars {
		t := vc.fresh("fv."+fv.Name(), vc.reg.sortOf(fv.Type()))
		vc.vals[fv] = t
		vc.params[fv.Name()] = binding{t: t, typ: goT(fv.Type())}
		vc.assumeValid(t, fv.Type())
		if _, isPtr := fv.Type().Underlying().(*types.Pointer); isPtr {
			// a free variable is the address of a captured variable: never nil
			vc.assumeGlobal(app(">", t, "0"))
		}
	}
	res := fn.Signature.Results()
	if len(d.Results) != 0 && len(d.Results) != res.Len() {
		return fmt.Errorf("%s#binding: contract lists %d results, function has %d", vc.key, len(d.Results), res.Len())
	}
	vc.results = d.Results
	// track_init
	for _, c := range d.Clauses {
		if c.Kind == "track_init" || c.Kind == "tracks" {
			ctx := vc.ctx(vc.entry, vc.entry)
			for _, m := range c.Mods {
				// fields(p) tracks every field of the struct, including ones added later
				for _, t := range ctx.modTargets(m) {
					if t.whole {
						panic(specErr(m, "track_init needs fields of one object"))
					}
					comp, ref := t.comp, t.ref
					if !vc.tracked(comp) {
						vc.trackInit = append(vc.trackInit, comp)
					}
					ic := "I." + comp
					if c.Kind == "track_init" {
						vc.setComp(vc.entry, ic, "(Array Int Bool)", app("store", vc.comp(vc.entry, ic, "(Array Int Bool)"), ref, "false"))
					} else {
						vc.compEntry(ic, "(Array Int Bool)")
					}
				}
			}
		}
	}
	for _, c := range d.Clauses {
		if c.Kind == "ghostlocal" {
			gt := vc.resolveType(c.Type, vc.ctx(vc.entry, vc.entry).pkg, nil)
			vc.ghostLocals[c.Str] = gt
			vc.setComp(vc.entry, "L."+c.Str, vc.ssort(gt), vc.specZero(gt))
		}
	}
	entry := vc.entry.clone()
	vc.entry = entry.clone()
	vc.cur = entry
	// preconditions
	ctx := vc.ctx(vc.cur, vc.entry)
	for _, c := range d.Clauses {
		if c.Kind == "requires" || (c.Kind == "carveout" && vc.carved) {
			vc.assumeGlobal(ctx.formula(c.E))
		}
	}
	vc.oblige("cover", "precondition-satisfiable", "false", fn.Pos()).Expect = "fail"
	// ghost entry blocks
	for _, c := range d.Clauses {
		if c.Kind == "ghost" && c.Anchor == "entry" {
			vc.ghostBlock(c, vc.cur, vc.entry, nil)
		}
	}
	vc.findLoops()
	vc.computeReachability()
	order := vc.topoOrder()
	for _, b := range order {
		vc.block(b)
	}
	if vc.rets == 0 {
		return fmt.Errorf("%s: no return reached", vc.key)
	}
	for _, c := range d.Clauses {
		if c.Kind == "assert" && !vc.usedAnchors[c] {
			// an assert clause anchored at a call is a claim about that call: it must bind
			return fmt.Errorf("%s#binding: the contract anchors an assertion at call %s#%d, which does not exist in the function", vc.key, c.Callee, c.CallK)
		}
		if c.Kind == "ghost" && (c.Anchor == "before-call" || c.Anchor == "after-call") && !vc.usedAnchors[c] {
			// ghost code anchored at a call holds proof hints (cut points, ghost updates): without its call the
			// hints are dropped and the rest of the contract is still checked against the new body
			vc.assumes[fmt.Sprintf("%s: ghost code anchored at call %s#%d, which the current body does not have (ignored)", vc.key, c.Callee, c.CallK)] = true
		}
	}
	for _, li := range vc.loops {
		if len(li.backReach) > 0 {
			vc.curBlock = nil
			vc.curReach = or(li.backReach...)
			vc.oblige("cover", fmt.Sprintf("loop-%d-can-iterate", li.ordinal), "false", vc.loopPos(li)).Expect = "fail"
		}
	}
	// vacuity: some return must be reachable under the precondition and all assumptions made
	vc.curBlock = nil
	vc.curReach = or(vc.retReach...)
	vc.oblige("cover", "some-return-reachable", "false", fn.Pos()).Expect = "fail"
	return nil
}

// ---- CFG ------------------------------------------------------------------------------------------

func isBackEdge(from, to *ssa.BasicBlock) bool { return to.Dominates(from) }

func (vc *VC) topoOrder() []*ssa.BasicBlock {
	var order []*ssa.BasicBlock
	seen := map[*ssa.BasicBlock]bool{}
	var dfs func(b *ssa.BasicBlock)
	dfs = func(b *ssa.BasicBlock) {
		seen[b] = true
		for _, s := range b.Succs {
			if !seen[s] && !isBackEdge(b, s) {
				dfs(s)
			}
		}
		order = append(order, b)
	}
	dfs(vc.fn.Blocks[0])
	for i, j := 0, len(order)-1; i < j; i, j = i+1, j-1 {
		order[i], order[j] = order[j], order[i]
	}
	return order
}

func (vc *VC) computeReachability() {
	vc.reachable = map[[2]int]bool{}
	for _, b := range vc.fn.Blocks {
		seen := map[int]bool{}
		stack := []*ssa.BasicBlock{b}
		for len(stack) > 0 {
			x := stack[len(stack)-1]
			stack = stack[:len(stack)-1]
			for _, s := range x.Succs {
				if isBackEdge(x, s) || seen[s.Index] {
					continue
				}
				seen[s.Index] = true
				vc.reachable[[2]int{b.Index, s.Index}] = true
				stack = append(stack, s)
			}
		}
	}
}

func (vc *VC) findLoops() {
	heads := map[*ssa.BasicBlock]*loopInfo{}
	for _, b := range vc.fn.Blocks {
		for _, s := range b.Succs {
			if isBackEdge(b, s) {
				li := heads[s]
				if li == nil {
					li = &loopInfo{header: s, blocks: map[*ssa.BasicBlock]bool{s: true}}
					heads[s] = li
				}
				// natural loop: all blocks that reach b without passing through s
				var stack []*ssa.BasicBlock
				if !li.blocks[b] {
					li.blocks[b] = true
					stack = append(stack, b)
				}
				for len(stack) > 0 {
					x := stack[len(stack)-1]
					stack = stack[:len(stack)-1]
					for _, p := range x.Preds {
						if !li.blocks[p] {
							li.blocks[p] = true
							stack = append(stack, p)
						}
					}
				}
			}
		}
	}
	for _, li := range heads {
		vc.loops = append(vc.loops, li)
	}
	// ordinals in source order of the header's first positioned instruction
	sort.Slice(vc.loops, func(i, j int) bool {
		pi, pj := vc.loopPos(vc.loops[i]), vc.loopPos(vc.loops[j])
		if pi != pj {
			return pi < pj
		}
		return vc.loops[i].header.Index < vc.loops[j].header.Index
	})
	for i, li := range vc.loops {
		li.ordinal = i
		vc.loopAt[li.header] = li
		if len(vc.inl) > 0 {
			continue // the contract's loop annotations belong to the function under verification, not to an inlined callee
		}
		for _, c := range vc.decl.Clauses {
			if c.Loop == i {
				switch c.Kind {
				case "invariant":
					li.invs = append(li.invs, c)
				case "decreases":
					li.dec = c
				case "loopmodifies":
					li.mods = append(li.mods, c)
				}
			}
		}
	}
	for _, c := range vc.decl.Clauses {
		if len(vc.inl) > 0 {
			break
		}
		if c.Loop >= len(vc.loops) {
			// a loop annotation without its loop (the body was restructured): invariants are proof hints,
			// not claims, so the rest of the contract is still checked against the new body
			vc.assumes[fmt.Sprintf("%s: the contract annotates loop %d, which the current body does not have (annotation ignored)", vc.key, c.Loop)] = true
		}
	}
}

func (vc *VC) loopPos(li *loopInfo) token.Pos {
	best := token.NoPos
	for b := range li.blocks {
		for _, in := range b.Instrs {
			if p := in.Pos(); p.IsValid() && (best == token.NoPos || p < best) {
				best = p
			}
		}
	}
	return best
}

func (vc *VC) edge(from, to *ssa.BasicBlock) Term {
	r := vc.reach[from]
	if c, ok := vc.edgeCond[[2]int{from.Index, to.Index}]; ok {
		return and(r, c)
	}
	return r
}

func (vc *VC) block(b *ssa.BasicBlock) {
	vc.curBlock = b
	if b.Index == 0 && len(vc.inl) > 0 {
		// entry of an inlined callee: continues the caller's path
		vc.reach[b] = vc.curReach
	} else if b.Index == 0 {
		vc.reach[b] = "true"
		vc.curReach = "true"
	} else {
		var preds []*ssa.BasicBlock
		for _, p := range b.Preds {
			if !isBackEdge(p, b) {
				if _, done := vc.exit[p]; done {
					preds = append(preds, p)
				}
			}
		}
		if len(preds) == 0 {
			// unreachable block (e.g. after panic)
			vc.reach[b] = "false"
			vc.curReach = "false"
			vc.cur = vc.entry.clone()
		} else {
			vc.merge(b, preds)
		}
	}
	if li := vc.loopAt[b]; li != nil {
		vc.loopHead(li)
	}
	for _, in := range b.Instrs {
		vc.instr(in)
	}
	vc.exit[b] = vc.cur
}

func (vc *VC) merge(b *ssa.BasicBlock, preds []*ssa.BasicBlock) {
	if len(preds) == 1 {
		p := preds[0]
		e := vc.edge(p, b)
		vc.reach[b] = vc.define("reach", sBool, e)
		vc.curReach = vc.reach[b]
		vc.cur = vc.exit[p].clone()
		return
	}
	var edges []Term
	for _, p := range preds {
		edges = append(edges, vc.define("edge", sBool, vc.edge(p, b)))
	}
	vc.reach[b] = vc.define("reach", sBool, or(edges...))
	vc.curReach = vc.reach[b]
	var states []*State
	for _, p := range preds {
		states = append(states, vc.exit[p])
	}
	vc.cur = vc.mergeStates(edges, states)
}

// mergeStates joins the states of several paths, selected by their (mutually exclusive) conditions.
func (vc *VC) mergeStates(edges []Term, states []*State) *State {
	st := &State{cells: map[*ssa.Alloc]Term{}, comps: map[string]Term{}}
	// cells
	cellSet := map[*ssa.Alloc]bool{}
	for _, p := range states {
		for c := range p.cells {
			cellSet[c] = true
		}
	}
	var cells []*ssa.Alloc
	for c := range cellSet {
		cells = append(cells, c)
	}
	sort.Slice(cells, func(i, j int) bool {
		if cells[i].Parent() != cells[j].Parent() {
			return cells[i].Parent().Name() < cells[j].Parent().Name()
		}
		return cells[i].Name() < cells[j].Name()
	})
	for _, c := range cells {
		var ts []Term
		missing := false
		for _, p := range states {
			t, ok := p.cells[c]
			if !ok {
				missing = true
				break
			}
			ts = append(ts, t)
		}
		if missing {
			continue // not defined on every path: dead here
		}
		st.cells[c] = vc.mergeTerms("c."+c.Comment, vc.reg.sortOf(deref(c.Type())), edges, ts)
	}
	compSet := map[string]bool{}
	for _, p := range states {
		for c := range p.comps {
			compSet[c] = true
		}
	}
	var comps []string
	for c := range compSet {
		comps = append(comps, c)
	}
	sort.Strings(comps)
	for _, c := range comps {
		var ts []Term
		for _, p := range states {
			ts = append(ts, vc.comp(p, c, vc.compSort[c]))
		}
		st.comps[c] = vc.mergeTerms(compPrefix(c), vc.compSort[c], edges, ts)
	}
	return st
}

func (vc *VC) mergeTerms(prefix, sort string, edges, ts []Term) Term {
	same := true
	for _, t := range ts[1:] {
		if t != ts[0] {
			same = false
		}
	}
	if same {
		return ts[0]
	}
	t := ts[len(ts)-1]
	for i := len(ts) - 2; i >= 0; i-- {
		t = ite(edges[i], ts[i], t)
	}
	return vc.define(prefix, sort, t)
}

func deref(t types.Type) types.Type { return t.Underlying().(*types.Pointer).Elem() }

// ---- loops ------------------------------------------------------------------------------------------

func (vc *VC) loopHead(li *loopInfo) {
	pos := vc.loopPos(li)
	for _, in := range li.header.Instrs {
		if nx, ok := in.(*ssa.Next); ok {
			if rg, ok := nx.Iter.(*ssa.Range); ok {
				if _, isMap := rg.X.Type().Underlying().(*types.Map); isMap {
					li.seen = "R." + rg.Name() + ".seen"
				} else {
					li.seen = "R." + rg.Name() + ".pos" // string range: "rangepos" names the byte position reached
				}
			}
		}
	}
	// 1. invariants hold on entry
	ctx := vc.ctx(vc.cur, vc.entry)
	ctx.loopScope = pos
	ctx.loopSeen = li.seen
	ctx.curLoop = li
	for i, c := range li.invs {
		vc.oblige("inv-init", fmt.Sprintf("%d.%s", li.ordinal, labelOr(c.Label, i)), ctx.formula(c.E), pos)
	}
	// 2. havoc what the loop may write
	cells, comps := vc.loopWrites(li)
	li.comps = comps
	var rangeIdx []*ssa.Alloc
	for _, c := range cells {
		if c.Comment == "rangeindex" {
			rangeIdx = append(rangeIdx, c)
		}
	}
	for _, c := range cells {
		if _, ok := vc.cur.cells[c]; ok {
			vc.cur.cells[c] = vc.fresh("lc."+c.Comment, vc.reg.sortOf(deref(c.Type())))
			vc.assumeValid(vc.cur.cells[c], deref(c.Type()))
		}
	}
	pre := vc.cur.clone()
	var havoced []string
	for _, c := range comps {
		s, ok := vc.compSort[c]
		if !ok {
			continue
		}
		if c == compNext {
			n := vc.fresh("next", sInt)
			vc.assume(app(">=", n, vc.next(vc.cur)))
			vc.assume(app(">=", n, vc.next(vc.entry)))
			vc.cur.comps[c] = n
			continue
		}
		vc.cur.comps[c] = vc.fresh(compPrefix(c), s)
		vc.assumeCompValid(vc.cur.comps[c], s, false)
		havoced = append(havoced, c)
	}
	for _, c := range havoced {
		vc.assumeRefsValid(c, vc.cur.comps[c], vc.next(vc.cur), false)
	}
	// written loop-modifies clauses restrict the havoc (frame of the loop): everything allocated
	// before the loop and not listed is unchanged
	vc.applyLoopFrame(li, pre, comps)
	li.headSt = vc.cur.clone()
	// 3. assume invariants
	ctx = vc.ctx(vc.cur, vc.entry)
	ctx.loopScope = pos
	ctx.loopSeen = li.seen
	ctx.curLoop = li
	for _, c := range li.invs {
		vc.assume(ctx.formula(c.E))
	}
	// ghost blocks anchored at this loop run at its head in every iteration, after the invariant is assumed
	// (ghost locals are part of every loop's havoc set)
	if d := vc.decl; d != nil && len(vc.inl) == 0 {
		for _, c := range d.Clauses {
			if c.Kind == "ghost" && c.Anchor == "loop" && c.Loop == li.ordinal {
				vc.runGhost(c, ctx, nil)
			}
		}
	}
	// automatic fact for range-over-slice loops: the hidden index starts at -1 and only grows
	for _, c := range rangeIdx {
		if t, ok := vc.cur.cells[c]; ok && c.Block().Dominates(li.header) {
			vc.assume(app(">=", t, "(- 1)"))
		}
	}
	if li.dec != nil {
		t, _ := ctx.expr(li.dec.E)
		li.decAt = vc.define("variant", sInt, t)
	}
}

func labelOr(l string, i int) string {
	if l != "" {
		return l
	}
	return fmt.Sprint(i)
}

func (vc *VC) backEdge(li *loopInfo, cond Term) {
	pos := vc.loopPos(li)
	saved := vc.curReach
	vc.curReach = vc.define("back", sBool, and(vc.curReach, cond))
	ctx := vc.ctx(vc.cur, vc.entry)
	ctx.loopScope = pos
	ctx.loopSeen = li.seen
	ctx.curLoop = li
	// vacuity: some back edge of an annotated loop must be takeable under the invariant and what the body assumes
	// (a contradictory body would preserve any invariant)
	if len(li.invs) > 0 && len(vc.inl) == 0 {
		li.backReach = append(li.backReach, vc.curReach)
	}
	for i, c := range li.invs {
		vc.oblige("inv-pres", fmt.Sprintf("%d.%s", li.ordinal, labelOr(c.Label, i)), ctx.formula(c.E), pos)
	}
	if li.dec != nil {
		t, _ := ctx.expr(li.dec.E)
		vc.oblige("dec", fmt.Sprint(li.ordinal), and(app(">=", li.decAt, "0"), app("<", t, li.decAt)), pos)
	}
	if li.framePre != nil {
		preNext := vc.next(li.framePre)
		for _, c := range li.comps {
			s, ok := vc.compSort[c]
			if !ok || c == compNext || li.frameWhole[c] || strings.HasPrefix(c, "R.") || strings.HasPrefix(c, "I.") || strings.HasPrefix(c, "L.") {
				continue
			}
			cur := vc.comp(vc.cur, c, s)
			old := vc.comp(li.framePre, c, s)
			if cur == old {
				continue
			}
			if !strings.HasPrefix(s, "(Array Int ") {
				vc.oblige("loopframe", fmt.Sprintf("%d.%s", li.ordinal, c), eq(cur, old), pos)
				continue
			}
			conds := []Term{app("<", "0", rootOf("r")), app("<", rootOf("r"), preNext)}
			for _, a := range li.frameAllowed[c] {
				conds = append(conds, not(eq("r", a)))
			}
			vc.oblige("loopframe", fmt.Sprintf("%d.%s", li.ordinal, c), fmt.Sprintf("(forall ((r Int)) %s)", implies(and(conds...), eq(app("select", cur, "r"), app("select", old, "r")))), pos)
		}
	}
	vc.curReach = saved
}

// loopWrites over-approximates the cells and components written inside the loop.
func (vc *VC) loopWrites(li *loopInfo) ([]*ssa.Alloc, []string) {
	cellSet := map[*ssa.Alloc]bool{}
	compSet := map[string]bool{}
	// every component known so far may be touched by a callee: computed precisely below
	var blocks []*ssa.BasicBlock
	for b := range li.blocks {
		blocks = append(blocks, b)
	}
	sort.Slice(blocks, func(i, j int) bool { return blocks[i].Index < blocks[j].Index })
	for _, b := range blocks {
		for _, in := range b.Instrs {
			switch x := in.(type) {
			case *ssa.Store:
				vc.addrWrites(x.Addr, cellSet, compSet)
			case *ssa.MapUpdate:
				m := x.Map.Type().Underlying().(*types.Map)
				d, v, _, _ := vc.mapComps(m)
				compSet[d], compSet[v] = true, true
			case *ssa.Alloc:
				if x.Heap {
					compSet[compNext] = true
					vc.allocWrites(deref(x.Type()), compSet)
				} else {
					cellSet[x] = true
				}
			case *ssa.MakeSlice, *ssa.MakeMap, *ssa.MakeChan, *ssa.MakeClosure, *ssa.MakeInterface:
				compSet[compNext] = true
				if ms, ok := x.(*ssa.MakeSlice); ok {
					c, _ := vc.elemsComp(ms.Type().Underlying().(*types.Slice).Elem())
					compSet[c] = true
				}
				if mm, ok := x.(*ssa.MakeMap); ok {
					d, v, _, _ := vc.mapComps(mm.Type().Underlying().(*types.Map))
					compSet[d], compSet[v] = true, true
				}
				if _, ok := x.(*ssa.MakeChan); ok {
					compSet["H.chancnt"], compSet["H.chancap"] = true, true
				}
			case *ssa.Send:
				compSet["H.chancnt"] = true
			case *ssa.Select:
				compSet["H.chancnt"] = true
				compSet["G.var.World"] = true
			case *ssa.UnOp:
				if x.Op == token.ARROW {
					compSet["H.chancnt"] = true
					compSet["G.var.World"] = true
				}
			case *ssa.Next:
				if rg, ok := x.Iter.(*ssa.Range); ok {
					if _, isMap := rg.X.Type().Underlying().(*types.Map); isMap {
						compSet["R."+rg.Name()+".seen"] = true
					} else {
						compSet["R."+rg.Name()+".pos"] = true
						compSet["R."+rg.Name()+".k"] = true
					}
				}
			case *ssa.Range:
				// range state is a value
			case ssa.CallInstruction:
				compSet[compNext] = true
				vc.callWrites(x, compSet)
			}
		}
	}
	for g := range vc.ghostLocals {
		compSet["L."+g] = true
	}
	var cells []*ssa.Alloc
	for c := range cellSet {
		cells = append(cells, c)
	}
	sort.Slice(cells, func(i, j int) bool { return cells[i].Name() < cells[j].Name() })
	var comps []string
	for c := range compSet {
		comps = append(comps, c)
	}
	sort.Strings(comps)
	return cells, comps
}

func (vc *VC) allocWrites(t types.Type, compSet map[string]bool) {
	switch u := t.Underlying().(type) {
	case *types.Struct:
		if !isExternalStruct(t) {
			for i := 0; i < u.NumFields(); i++ {
				f := u.Field(i)
				inner, isStruct := vc.isInnerField(t, f)
				switch {
				case isStruct:
					vc.allocWrites(f.Type(), compSet)
				case inner:
					c, _ := vc.boxComp(f.Type())
					compSet[c] = true
				default:
					c, _ := vc.fieldComp(t, f)
					compSet[c] = true
				}
			}
		}
		for _, g := range vc.ghostFieldsOf(t) {
			compSet[vc.ghostComp(t, g.Name)] = true
		}
	case *types.Array:
		c, _ := vc.elemsComp(u.Elem())
		compSet[c] = true
	default:
		c, _ := vc.boxComp(t)
		compSet[c] = true
	}
}

// addrWrites: which cell or component does a store through this address write?
func (vc *VC) addrWrites(addr ssa.Value, cellSet map[*ssa.Alloc]bool, compSet map[string]bool) {
	switch a := addr.(type) {
	case *ssa.Alloc:
		if !a.Heap {
			cellSet[a] = true
			return
		}
		vc.allocWrites(deref(a.Type()), compSet)
	case *ssa.FieldAddr:
		st := deref(a.X.Type())
		if root := rootAlloc(a.X); root != nil && !root.Heap {
			cellSet[root] = true
			return
		}
		f := st.Underlying().(*types.Struct).Field(a.Field)
		inner, isStruct := vc.isInnerField(st, f)
		switch {
		case isStruct:
			vc.allocWrites(f.Type(), compSet)
		case inner:
			c, _ := vc.boxComp(f.Type())
			compSet[c] = true
		default:
			c, _ := vc.fieldComp(st, f)
			compSet[c] = true
		}
	case *ssa.IndexAddr:
		if root := rootAlloc(a.X); root != nil && !root.Heap {
			cellSet[root] = true
			return
		}
		var et types.Type
		switch u := a.X.Type().Underlying().(type) {
		case *types.Slice:
			et = u.Elem()
		case *types.Pointer:
			et = u.Elem().Underlying().(*types.Array).Elem()
		}
		c, _ := vc.elemsComp(et)
		compSet[c] = true
	default:
		// a pointer value: box or struct object
		t := deref(addr.Type())
		vc.allocWrites(t, compSet)
	}
}

func rootAlloc(v ssa.Value) *ssa.Alloc {
	for {
		switch x := v.(type) {
		case *ssa.Alloc:
			return x
		case *ssa.FieldAddr:
			v = x.X
		case *ssa.IndexAddr:
			if _, ok := x.X.Type().Underlying().(*types.Pointer); ok {
				v = x.X
			} else {
				return nil
			}
		default:
			return nil
		}
	}
}

// ---- validity assumptions on values read from parameters, the heap or callees --------------------

var intRanges = map[types.BasicKind][2]string{
	types.Int:     {"(- 9223372036854775808)", "9223372036854775807"},
	types.Int64:   {"(- 9223372036854775808)", "9223372036854775807"},
	types.Int32:   {"(- 2147483648)", "2147483647"},
	types.Int16:   {"(- 32768)", "32767"},
	types.Int8:    {"(- 128)", "127"},
	types.Uint:    {"0", "18446744073709551615"},
	types.Uint64:  {"0", "18446744073709551615"},
	types.Uint32:  {"0", "4294967295"},
	types.Uint16:  {"0", "65535"},
	types.Uint8:   {"0", "255"},
	types.Uintptr: {"0", "18446744073709551615"},
}

func (vc *VC) validity(t Term, typ types.Type) Term {
	typ = types.Unalias(typ)
	if isTypeParam(typ) {
		return "true"
	}
	switch u := typ.Underlying().(type) {
	case *types.Basic:
		if r, ok := intRanges[u.Kind()]; ok {
			return and(app("<=", r[0], t), app("<=", t, r[1]))
		}
	case *types.Pointer, *types.Map, *types.Chan, *types.Signature:
		return app("<", t, vc.next(vc.cur))
	case *types.Slice:
		return and(app("<=", "0", app("ys.off", t)), app("<=", "0", app("ys.len", t)), app("<=", app("ys.len", t), app("ys.cap", t)),
			app("<=", app("ys.cap", t), "72057594037927936"), app("<", app("ys.arr", t), vc.next(vc.cur)), app("<=", "0", app("ys.arr", t)),
			implies(eq(app("ys.arr", t), "0"), eq(app("ys.cap", t), "0")))
	case *types.Interface:
		return and(app("<=", "0", app("ys.ityp", t)), implies(eq(app("ys.ityp", t), "0"), eq(app("ys.ipay", t), "0")),
			app("<", app("ys.ipay", t), vc.next(vc.cur)))
	}
	return "true"
}

// entryObjectsExist: the contract carries the clause entry_objects_exist.
func (vc *VC) entryObjectsExist() bool {
	if vc.decl == nil {
		return false
	}
	for _, c := range vc.decl.Clauses {
		if c.Kind == "entry_objects_exist" {
			return true
		}
	}
	return false
}

func (vc *VC) assumeValid(t Term, typ types.Type) {
	vc.assume(vc.validity(t, typ))
}

// ---- instructions -----------------------------------------------------------------------------------

func (vc *VC) val(v ssa.Value) Term {
	switch x := v.(type) {
	case *ssa.Const:
		return vc.constant(x)
	case *ssa.Function:
		return vc.funcRef(x)
	case *ssa.Global:
		return vc.globalRef(x)
	case *ssa.Builtin:
		panic(unsupported("builtin as value"))
	}
	if t, ok := vc.vals[v]; ok {
		return t
	}
	if lv, ok := vc.lvs[v]; ok {
		return vc.lvAsTerm(lv, v)
	}
	panic(fmt.Errorf("no value for %s = %s", v.Name(), v))
}

// lvAsTerm: a symbolic location used as a first-class pointer value.
func (vc *VC) lvAsTerm(lv *LV, v ssa.Value) Term {
	if lv.kind == lvHeap && len(lv.path) == 0 {
		return lv.ref
	}
	panic(unsupported(fmt.Sprintf("address of a local or of a slice element used as a value (%s in %s)", v.Name(), vc.key)))
}

func (vc *VC) funcRef(f *ssa.Function) Term {
	n := sym("ys.fn." + f.String())
	vc.reg.decl(n, fmt.Sprintf("(declare-const %s Int)\n(assert (< %s 0))", n, n))
	return n
}

func (vc *VC) globalRef(g *ssa.Global) Term {
	n := sym("ys.global." + g.String())
	vc.reg.decl(n, fmt.Sprintf("(declare-const %s Int)\n(assert (< %s 0))", n, n))
	return n
}

func (vc *VC) constant(c *ssa.Const) Term {
	t := types.Unalias(c.Type())
	if c.Value == nil {
		if isTypeParam(t) {
			return vc.reg.zero(t)
		}
		return vc.reg.zero(t)
	}
	switch u := t.Underlying().(type) {
	case *types.Basic:
		switch {
		case u.Info()&types.IsInteger != 0:
			if i, ok := constant.Int64Val(constant.ToInt(c.Value)); ok {
				return intLit(i)
			}
			s := constant.ToInt(c.Value).ExactString()
			if strings.HasPrefix(s, "-") {
				return "(- " + s[1:] + ")"
			}
			return s
		case u.Info()&types.IsBoolean != 0:
			if constant.BoolVal(c.Value) {
				return "true"
			}
			return "false"
		case u.Info()&types.IsString != 0:
			return strLit(constant.StringVal(c.Value))
		case u.Info()&types.IsFloat != 0:
			f, _ := constant.Float64Val(c.Value)
			return floatLit(f)
		}
	}
	if isTypeParam(t) {
		return vc.reg.zero(t)
	}
	panic(unsupported("constant " + c.String()))
}

func floatLit(f float64) Term {
	if math.IsNaN(f) {
		return "(_ NaN 11 53)"
	}
	if math.IsInf(f, 1) {
		return "(_ +oo 11 53)"
	}
	if math.IsInf(f, -1) {
		return "(_ -oo 11 53)"
	}
	bits := math.Float64bits(f)
	return fmt.Sprintf("(fp #b%01b #b%011b #b%052b)", bits>>63, (bits>>52)&0x7ff, bits&((1<<52)-1))
}

func (vc *VC) setVal(v ssa.Value, t Term) {
	vc.vals[v] = vc.define(v.Name(), vc.reg.sortOf(v.Type()), t)
}

func (vc *VC) instr(in ssa.Instruction) {
	switch x := in.(type) {
	case *ssa.DebugRef:
	case *ssa.Alloc:
		vc.doAlloc(x)
	case *ssa.Store:
		lv := vc.addr(x.Addr, x.Pos())
		vc.store(lv, vc.val(x.Val))
	case *ssa.UnOp:
		vc.unop(x)
	case *ssa.BinOp:
		vc.binop(x)
	case *ssa.FieldAddr:
		vc.fieldAddr(x)
	case *ssa.Field:
		st := x.X.Type()
		f := st.Underlying().(*types.Struct).Field(x.Field)
		vc.reg.sortOf(st)
		vc.setVal(x, app(structSel(typeKey(st), f.Name()), vc.val(x.X)))
	case *ssa.IndexAddr:
		vc.indexAddr(x)
	case *ssa.Index:
		vc.index(x)
	case *ssa.Lookup:
		vc.lookup(x)
	case *ssa.Slice:
		vc.slice(x)
	case *ssa.MakeSlice:
		vc.makeSlice(x)
	case *ssa.MakeMap:
		r := vc.alloc(vc.cur)
		m := x.Type().Underlying().(*types.Map)
		d, v, ds, vs := vc.mapComps(m)
		ks := vc.reg.sortOf(m.Key())
		vc.setComp(vc.cur, d, ds, app("store", vc.comp(vc.cur, d, ds), r, fmt.Sprintf("((as const (Array %s Bool)) false)", ks)))
		vc.setComp(vc.cur, v, vs, app("store", vc.comp(vc.cur, v, vs), r, fmt.Sprintf("((as const (Array %s %s)) %s)", ks, vc.reg.sortOf(m.Elem()), vc.reg.zero(m.Elem()))))
		vc.vals[x] = r
	case *ssa.MakeChan:
		r := vc.alloc(vc.cur)
		vc.setComp(vc.cur, "H.chancnt", "(Array Int Int)", app("store", vc.comp(vc.cur, "H.chancnt", "(Array Int Int)"), r, "0"))
		vc.setComp(vc.cur, "H.chancap", "(Array Int Int)", app("store", vc.comp(vc.cur, "H.chancap", "(Array Int Int)"), r, vc.val(x.Size)))
		vc.vals[x] = r
	case *ssa.MakeClosure:
		vc.makeClosure(x)
	case *ssa.MakeInterface:
		vc.setVal(x, vc.makeIface(vc.val(x.X), x.X.Type()))
	case *ssa.ChangeInterface:
		vc.vals[x] = vc.val(x.X)
	case *ssa.ChangeType:
		vc.vals[x] = vc.val(x.X)
	case *ssa.Convert:
		vc.convert(x)
	case *ssa.TypeAssert:
		vc.typeAssert(x)
	case *ssa.Extract:
		ts, ok := vc.tuples[x.Tuple]
		if !ok {
			panic(fmt.Errorf("no tuple for %s", x.Tuple.Name()))
		}
		vc.vals[x] = ts[x.Index]
	case *ssa.Phi:
		vc.phi(x)
	case *ssa.Call:
		vc.call(x)
	case *ssa.Go:
		// the spawner's sequential state is unaffected; the body is verified separately
		vc.assumes["goroutine bodies are verified as sequential functions; interleavings are not modelled"] = true
		for _, a := range x.Call.Args {
			vc.val(a)
		}
	case *ssa.Defer:
		panic(unsupported("defer"))
	case *ssa.RunDefers:
	case *ssa.Range:
		vc.rangeStart(x)
	case *ssa.Next:
		vc.rangeNext(x)
	case *ssa.Select:
		vc.selectInstr(x)
	case *ssa.Send:
		vc.send(x)
	case *ssa.MapUpdate:
		vc.mapUpdate(x)
	case *ssa.Panic:
		k := vc.ordinal("safe:panic")
		if conds := vc.panicConds(); len(vc.inl) == 0 && len(conds) > 0 {
			// a declared panic: reached only under (one of) the declared conditions, evaluated on entry
			vc.oblige("panics", fmt.Sprintf("only-if-declared@%d", k), or(conds...), x.Pos())
		} else {
			vc.oblige("safe", fmt.Sprintf("panic@%d", k), "false", x.Pos())
		}
	case *ssa.Return:
		vc.ret(x)
	case *ssa.If:
		c := vc.val(x.Cond)
		b := x.Block()
		vc.setEdge(b, b.Succs[0], c)
		vc.setEdge(b, b.Succs[1], not(c))
	case *ssa.Jump:
		b := x.Block()
		vc.setEdge(b, b.Succs[0], "true")
	default:
		panic(unsupported(fmt.Sprintf("instruction %T", in)))
	}
}

func (vc *VC) setEdge(from, to *ssa.BasicBlock, cond Term) {
	if isBackEdge(from, to) {
		if li := vc.loopAt[to]; li != nil {
			vc.reach[from] = vc.curReach
			vc.backEdge(li, cond)
		}
	}
	key := [2]int{from.Index, to.Index}
	if old, ok := vc.edgeCond[key]; ok {
		vc.edgeCond[key] = or(old, cond)
	} else {
		vc.edgeCond[key] = cond
	}
	vc.reach[from] = vc.curReach
}

func (vc *VC) doAlloc(x *ssa.Alloc) {
	t := deref(x.Type())
	if !x.Heap {
		if x.Comment == "defer$stack" {
			vc.cur.cells[x] = "0"
			vc.lvs[x] = &LV{kind: lvCell, cell: x, typ: t, base: t}
			return
		}
		vc.cur.cells[x] = vc.reg.zero(t)
		vc.lvs[x] = &LV{kind: lvCell, cell: x, typ: t, base: t}
		return
	}
	r := vc.alloc(vc.cur)
	vc.zeroInit(vc.cur, t, r)
	vc.vals[x] = r
}

// addr resolves an address operand to a location, with the nil-dereference obligation.
func (vc *VC) addr(a ssa.Value, pos token.Pos) *LV {
	if lv, ok := vc.lvs[a]; ok {
		return lv
	}
	p := vc.val(a)
	vc.safe("nil", not(eq(p, "0")), pos)
	return vc.ptrLV(p, deref(a.Type()))
}

// ptrLV: the location a first-class pointer value of type *t points to.
func (vc *VC) ptrLV(p Term, t types.Type) *LV {
	switch t.Underlying().(type) {
	case *types.Struct:
		return &LV{kind: lvHeap, ref: p, typ: t, base: t}
	case *types.Array:
		return &LV{kind: lvHeap, ref: p, typ: t, base: t, comp: "array"}
	}
	c, _ := vc.boxComp(t)
	return &LV{kind: lvHeap, comp: c, ref: p, typ: t, base: t}
}

func (vc *VC) load(lv *LV) Term {
	var v Term
	switch lv.kind {
	case lvCell:
		var ok bool
		v, ok = vc.cur.cells[lv.cell]
		if !ok {
			panic(fmt.Errorf("read of undefined local %s", lv.cell.Comment))
		}
	case lvHeap:
		switch u := lv.base.Underlying().(type) {
		case *types.Struct:
			if lv.comp == "" {
				v = vc.loadStruct(vc.cur, lv.base, lv.ref)
				break
			}
			_, cs := vc.compSortOf(lv)
			v = app("select", vc.comp(vc.cur, lv.comp, cs), lv.ref)
		case *types.Array:
			if lv.comp == "array" {
				c, cs := vc.elemsComp(u.Elem())
				v = app("select", vc.comp(vc.cur, c, cs), lv.ref)
				break
			}
			_, cs := vc.compSortOf(lv)
			v = app("select", vc.comp(vc.cur, lv.comp, cs), lv.ref)
		default:
			_, cs := vc.compSortOf(lv)
			v = app("select", vc.comp(vc.cur, lv.comp, cs), lv.ref)
			vc.checkInit(lv)
		}
	case lvElem:
		cs := "(Array Int (Array Int " + vc.reg.sortOf(lv.base) + "))"
		if lv.off != "" {
			v = app(vc.reg.eltFn(vc.reg.sortOf(lv.base)), app("select", vc.comp(vc.cur, lv.comp, cs), lv.ref), lv.off, lv.rel)
		} else {
			v = app("select", app("select", vc.comp(vc.cur, lv.comp, cs), lv.ref), lv.idx)
		}
	}
	return vc.selPath(v, lv.path)
}

func (vc *VC) compSortOf(lv *LV) (string, string) {
	if s, ok := vc.compSort[lv.comp]; ok {
		return lv.comp, s
	}
	return lv.comp, "(Array Int " + vc.reg.sortOf(lv.base) + ")"
}

func (vc *VC) selPath(v Term, path []pstep) Term {
	for _, s := range path {
		if s.idx != "" {
			v = app("select", v, s.idx)
		} else {
			f := s.styp.Underlying().(*types.Struct).Field(s.field)
			vc.reg.sortOf(s.styp)
			v = app(structSel(typeKey(s.styp), f.Name()), v)
		}
	}
	return v
}

func (vc *VC) updPath(old Term, path []pstep, v Term) Term {
	if len(path) == 0 {
		return v
	}
	s := path[0]
	if s.idx != "" {
		return app("store", old, s.idx, vc.updPath(app("select", old, s.idx), path[1:], v))
	}
	st := s.styp.Underlying().(*types.Struct)
	k := typeKey(s.styp)
	vc.reg.sortOf(s.styp)
	var fs []Term
	for i := 0; i < st.NumFields(); i++ {
		sel := app(structSel(k, st.Field(i).Name()), old)
		if i == s.field {
			fs = append(fs, vc.updPath(sel, path[1:], v))
		} else {
			fs = append(fs, sel)
		}
	}
	return app(structCtor(k), fs...)
}

func (vc *VC) store(lv *LV, v Term) {
	switch lv.kind {
	case lvCell:
		old := vc.cur.cells[lv.cell]
		vc.cur.cells[lv.cell] = vc.define("c."+lv.cell.Comment, vc.reg.sortOf(lv.base), vc.updPath(old, lv.path, v))
	case lvHeap:
		switch u := lv.base.Underlying().(type) {
		case *types.Struct:
			if lv.comp == "" {
				if len(lv.path) > 0 {
					v = vc.updPath(vc.loadStruct(vc.cur, lv.base, lv.ref), lv.path, v)
				}
				vc.storeStruct(vc.cur, lv.base, lv.ref, v)
				return
			}
		case *types.Array:
			if lv.comp == "array" {
				c, cs := vc.elemsComp(u.Elem())
				cur := vc.comp(vc.cur, c, cs)
				vc.setComp(vc.cur, c, cs, app("store", cur, lv.ref, vc.updPath(app("select", cur, lv.ref), lv.path, v)))
				return
			}
		}
		c, cs := vc.compSortOf(lv)
		cur := vc.comp(vc.cur, c, cs)
		vc.setComp(vc.cur, c, cs, app("store", cur, lv.ref, vc.updPath(app("select", cur, lv.ref), lv.path, v)))
		vc.markInit(lv)
	case lvElem:
		cs := "(Array Int (Array Int " + vc.reg.sortOf(lv.base) + "))"
		cur := vc.comp(vc.cur, lv.comp, cs)
		arr := app("select", cur, lv.ref)
		vc.setComp(vc.cur, lv.comp, cs, app("store", cur, lv.ref, app("store", arr, lv.idx, vc.updPath(app("select", arr, lv.idx), lv.path, v))))
	}
}

// init-before-read tracking (DESIGN 2.8)
func (vc *VC) tracked(comp string) bool {
	for _, c := range vc.trackInit {
		if c == comp {
			return true
		}
	}
	return false
}

func (vc *VC) checkInit(lv *LV) {
	if lv.kind == lvHeap && vc.tracked(lv.comp) {
		ic := "I." + lv.comp
		k := vc.ordinal("init")
		vc.oblige("init", fmt.Sprintf("%s@%d", strings.TrimPrefix(lv.comp, "H."), k), app("select", vc.comp(vc.cur, ic, "(Array Int Bool)"), lv.ref), token.NoPos)
	}
}

func (vc *VC) markInit(lv *LV) {
	if lv.kind == lvHeap && vc.tracked(lv.comp) {
		ic := "I." + lv.comp
		vc.setComp(vc.cur, ic, "(Array Int Bool)", app("store", vc.comp(vc.cur, ic, "(Array Int Bool)"), lv.ref, "true"))
	}
}

func (vc *VC) fieldAddr(x *ssa.FieldAddr) {
	st := deref(x.X.Type())
	f := st.Underlying().(*types.Struct).Field(x.Field)
	if lv, ok := vc.lvs[x.X]; ok && !(lv.kind == lvHeap && len(lv.path) == 0 && lv.comp == "") {
		// field of a local struct or of a struct stored by value somewhere
		n := *lv
		n.path = append(append([]pstep{}, lv.path...), pstep{field: x.Field, styp: st})
		n.typ = f.Type()
		vc.lvs[x] = &n
		return
	}
	var p Term
	if lv, ok := vc.lvs[x.X]; ok {
		p = lv.ref
	} else {
		p = vc.val(x.X)
		vc.safe("nil", not(eq(p, "0")), x.Pos())
	}
	inner, isStruct := vc.isInnerField(st, f)
	switch {
	case isStruct:
		r := vc.innerRef(st, f.Name(), p)
		vc.lvs[x] = &LV{kind: lvHeap, ref: r, typ: f.Type(), base: f.Type()}
	case inner:
		r := vc.innerRef(st, f.Name(), p)
		c, _ := vc.boxComp(f.Type())
		vc.lvs[x] = &LV{kind: lvHeap, comp: c, ref: r, typ: f.Type(), base: f.Type()}
	default:
		c, _ := vc.fieldComp(st, f)
		vc.lvs[x] = &LV{kind: lvHeap, comp: c, ref: p, typ: f.Type(), base: f.Type()}
	}
}

func (vc *VC) indexAddr(x *ssa.IndexAddr) {
	idx := vc.val(x.Index)
	switch u := x.X.Type().Underlying().(type) {
	case *types.Slice:
		s := vc.val(x.X)
		vc.safe("idx", and(app("<=", "0", idx), app("<", idx, app("ys.len", s))), x.Pos())
		c, _ := vc.elemsComp(u.Elem())
		off := vc.define("off", sInt, app("ys.off", s))
		vc.lvs[x] = &LV{kind: lvElem, comp: c, ref: app("ys.arr", s), idx: vc.define("ix", sInt, app("+", off, idx)), off: off, rel: idx, typ: u.Elem(), base: u.Elem()}
	case *types.Pointer:
		arr := u.Elem().Underlying().(*types.Array)
		vc.safe("idx", and(app("<=", "0", idx), app("<", idx, fmt.Sprint(arr.Len()))), x.Pos())
		if lv, ok := vc.lvs[x.X]; ok && !(lv.kind == lvHeap && lv.comp == "array" && len(lv.path) == 0) {
			n := *lv
			n.path = append(append([]pstep{}, lv.path...), pstep{idx: idx, styp: u.Elem()})
			n.typ = arr.Elem()
			vc.lvs[x] = &n
			return
		}
		var p Term
		if lv, ok := vc.lvs[x.X]; ok {
			p = lv.ref
		} else {
			p = vc.val(x.X)
			vc.safe("nil", not(eq(p, "0")), x.Pos())
		}
		c, _ := vc.elemsComp(arr.Elem())
		vc.lvs[x] = &LV{kind: lvElem, comp: c, ref: p, idx: idx, typ: arr.Elem(), base: arr.Elem()}
	default:
		panic(unsupported("IndexAddr on " + x.X.Type().String()))
	}
}

func (vc *VC) index(x *ssa.Index) {
	idx := vc.val(x.Index)
	switch u := x.X.Type().Underlying().(type) {
	case *types.Basic: // string
		s := vc.val(x.X)
		vc.safe("idx", and(app("<=", "0", idx), app("<", idx, app("str.len", s))), x.Pos())
		vc.setVal(x, app("str.to_code", app("str.at", s, idx)))
	case *types.Array:
		vc.safe("idx", and(app("<=", "0", idx), app("<", idx, fmt.Sprint(u.Len()))), x.Pos())
		vc.setVal(x, app("select", vc.val(x.X), idx))
	default:
		panic(unsupported("Index on " + x.X.Type().String()))
	}
}

func (vc *VC) lookup(x *ssa.Lookup) {
	switch u := x.X.Type().Underlying().(type) {
	case *types.Map:
		m := vc.val(x.X)
		k := vc.val(x.Index)
		d, v, ds, vs := vc.mapComps(u)
		in := app("select", app("select", vc.comp(vc.cur, d, ds), m), k)
		// a nil map reads as empty
		in = and(not(eq(m, "0")), in)
		val := ite(in, app("select", app("select", vc.comp(vc.cur, v, vs), m), k), vc.reg.zero(u.Elem()))
		val = vc.define(x.Name(), vc.reg.sortOf(u.Elem()), val)
		vc.assumeValid(val, u.Elem())
		if x.CommaOk {
			vc.tuples[x] = []Term{val, vc.define(x.Name()+".ok", sBool, in)}
		} else {
			vc.vals[x] = val
		}
	case *types.Basic:
		s := vc.val(x.X)
		idx := vc.val(x.Index)
		vc.safe("idx", and(app("<=", "0", idx), app("<", idx, app("str.len", s))), x.Pos())
		vc.setVal(x, app("str.to_code", app("str.at", s, idx)))
	default:
		panic(unsupported("Lookup on " + x.X.Type().String()))
	}
}

func (vc *VC) mapUpdate(x *ssa.MapUpdate) {
	u := x.Map.Type().Underlying().(*types.Map)
	m := vc.val(x.Map)
	vc.safe("nilmap", not(eq(m, "0")), x.Pos())
	k, v := vc.val(x.Key), vc.val(x.Value)
	d, vv, ds, vs := vc.mapComps(u)
	cd, cv := vc.comp(vc.cur, d, ds), vc.comp(vc.cur, vv, vs)
	vc.setComp(vc.cur, d, ds, app("store", cd, m, app("store", app("select", cd, m), k, "true")))
	vc.setComp(vc.cur, vv, vs, app("store", cv, m, app("store", app("select", cv, m), k, v)))
}

func (vc *VC) slice(x *ssa.Slice) {
	var lo, hi, mx Term
	if x.Low != nil {
		lo = vc.val(x.Low)
	} else {
		lo = "0"
	}
	switch u := x.X.Type().Underlying().(type) {
	case *types.Slice:
		s := vc.val(x.X)
		if x.High != nil {
			hi = vc.val(x.High)
		} else {
			hi = app("ys.len", s)
		}
		if x.Max != nil {
			mx = vc.val(x.Max)
		} else {
			mx = app("ys.cap", s)
		}
		vc.safe("slice", and(app("<=", "0", lo), app("<=", lo, hi), app("<=", hi, mx), app("<=", mx, app("ys.cap", s))), x.Pos())
		vc.setVal(x, app("ys.mkslice", app("ys.arr", s), app("+", app("ys.off", s), lo), app("-", hi, lo), app("-", mx, lo)))
	case *types.Basic: // string
		s := vc.val(x.X)
		if x.High != nil {
			hi = vc.val(x.High)
		} else {
			hi = app("str.len", s)
		}
		vc.safe("slice", and(app("<=", "0", lo), app("<=", lo, hi), app("<=", hi, app("str.len", s))), x.Pos())
		vc.setVal(x, app("str.substr", s, lo, app("-", hi, lo)))
	case *types.Pointer: // pointer to array
		arr := u.Elem().Underlying().(*types.Array)
		n := fmt.Sprint(arr.Len())
		var p Term
		if lv, ok := vc.lvs[x.X]; ok {
			if !(lv.kind == lvHeap && lv.comp == "array" && len(lv.path) == 0) {
				panic(unsupported("slice of a local array"))
			}
			p = lv.ref
		} else {
			p = vc.val(x.X)
			vc.safe("nil", not(eq(p, "0")), x.Pos())
		}
		if x.High != nil {
			hi = vc.val(x.High)
		} else {
			hi = n
		}
		if x.Max != nil {
			mx = vc.val(x.Max)
		} else {
			mx = n
		}
		vc.safe("slice", and(app("<=", "0", lo), app("<=", lo, hi), app("<=", hi, mx), app("<=", mx, n)), x.Pos())
		vc.setVal(x, app("ys.mkslice", p, lo, app("-", hi, lo), app("-", mx, lo)))
	default:
		panic(unsupported("Slice on " + x.X.Type().String()))
	}
}

func (vc *VC) makeSlice(x *ssa.MakeSlice) {
	et := x.Type().Underlying().(*types.Slice).Elem()
	l, c := vc.val(x.Len), vc.val(x.Cap)
	vc.safe("makeslice", and(app("<=", "0", l), app("<=", l, c)), x.Pos())
	vc.assume(app("<=", c, "72057594037927936"))
	vc.assumes["allocation succeeds and no slice has more than 2^56 elements (out-of-memory is not modelled)"] = true
	r := vc.alloc(vc.cur)
	comp, cs := vc.elemsComp(et)
	vc.setComp(vc.cur, comp, cs, app("store", vc.comp(vc.cur, comp, cs), r, vc.reg.constArray(vc.reg.sortOf(et), vc.reg.zero(et))))
	vc.setVal(x, app("ys.mkslice", r, "0", l, c))
}

func (vc *VC) makeIface(v Term, t types.Type) Term {
	if _, ok := t.Underlying().(*types.Interface); ok {
		return v
	}
	id := vc.reg.typeID(t)
	switch t.Underlying().(type) {
	case *types.Pointer, *types.Map, *types.Chan, *types.Signature:
		return app("ys.mkiface", fmt.Sprint(id), v)
	}
	return app("ys.mkiface", fmt.Sprint(id), vc.boxVal(v, t))
}

// boxVal injects a non-reference value into the payload space of interfaces.
func (vc *VC) boxVal(v Term, t types.Type) Term {
	s := vc.reg.sortOf(t)
	id := sanitizeFile(s)
	bf, uf := sym("ys.ibox."+id), sym("ys.iunbox."+id)
	vc.reg.decl(bf, fmt.Sprintf("(declare-fun %s (%s) Int)\n(declare-fun %s (Int) %s)\n(assert (forall ((x %s)) (! (and (= (%s (%s x)) x) (< (%s x) 0)) :pattern ((%s x)))))", bf, s, uf, s, s, uf, bf, bf, bf))
	return app(bf, v)
}

func (vc *VC) unboxVal(p Term, t types.Type) Term {
	s := vc.reg.sortOf(t)
	id := sanitizeFile(s)
	vc.boxVal(vc.reg.zero(t), t)
	return app(sym("ys.iunbox."+id), p)
}

func (vc *VC) typeAssert(x *ssa.TypeAssert) {
	v := vc.val(x.X)
	if _, ok := x.AssertedType.Underlying().(*types.Interface); ok {
		// to an interface type: succeeds iff the dynamic type implements it (uninterpreted per type id)
		fn := sym("ys.implements." + typeKey(x.AssertedType))
		vc.reg.decl(fn, fmt.Sprintf("(declare-fun %s (Int) Bool)", fn))
		ok := and(not(eq(app("ys.ityp", v), "0")), app(fn, app("ys.ityp", v)))
		if x.CommaOk {
			okc := vc.define(x.Name()+".ok", sBool, ok)
			vc.tuples[x] = []Term{vc.define(x.Name(), sIface, ite(okc, v, vc.reg.zero(x.AssertedType))), okc}
		} else {
			vc.safe("assert", ok, x.Pos())
			vc.vals[x] = v
		}
		return
	}
	id := fmt.Sprint(vc.reg.typeID(x.AssertedType))
	ok := eq(app("ys.ityp", v), id)
	var payload Term
	switch x.AssertedType.Underlying().(type) {
	case *types.Pointer, *types.Map, *types.Chan, *types.Signature:
		payload = app("ys.ipay", v)
	default:
		payload = vc.unboxVal(app("ys.ipay", v), x.AssertedType)
	}
	if x.CommaOk {
		okc := vc.define(x.Name()+".ok", sBool, ok)
		val := vc.define(x.Name(), vc.reg.sortOf(x.AssertedType), ite(okc, payload, vc.reg.zero(x.AssertedType)))
		vc.tuples[x] = []Term{val, okc}
	} else {
		vc.safe("assert", ok, x.Pos())
		vc.setVal(x, payload)
	}
}

func (vc *VC) phi(x *ssa.Phi) {
	b := x.Block()
	var t Term
	first := true
	for i := len(x.Edges) - 1; i >= 0; i-- {
		p := b.Preds[i]
		if isBackEdge(p, b) {
			panic(unsupported("phi on a loop header"))
		}
		if _, done := vc.exit[p]; !done {
			continue
		}
		v := vc.val(x.Edges[i])
		if first {
			t = v
			first = false
		} else {
			t = ite(vc.edge(p, b), v, t)
		}
	}
	vc.setVal(x, t)
}

func (vc *VC) unop(x *ssa.UnOp) {
	switch x.Op {
	case token.MUL:
		lv := vc.addr(x.X, x.Pos())
		v := vc.load(lv)
		v = vc.define(x.Name(), vc.reg.sortOf(x.Type()), v)
		vc.vals[x] = v
		if lv.kind != lvCell {
			vc.assumeValid(v, x.Type())
		}
	case token.NOT:
		vc.setVal(x, not(vc.val(x.X)))
	case token.SUB:
		if isFloat(x.Type()) {
			vc.setVal(x, app("fp.neg", vc.val(x.X)))
		} else {
			r := app("-", vc.val(x.X))
			vc.setVal(x, vc.arithResult(r, x.Type(), x.Pos()))
		}
	case token.ARROW:
		vc.recv(x)
	default:
		panic(unsupported("unary " + x.Op.String()))
	}
}

func (vc *VC) arithResult(r Term, t types.Type, pos token.Pos) Term {
	b, ok := t.Underlying().(*types.Basic)
	if !ok {
		return r
	}
	rg, ok := intRanges[b.Kind()]
	if !ok {
		return r
	}
	switch vc.arith {
	case "checked":
		r = vc.define("ar", sInt, r)
		vc.safe("ovf", and(app("<=", rg[0], r), app("<=", r, rg[1])), pos)
		return r
	case "wrap":
		// r mod 2^w, re-centred for signed types
		lo, _ := new(big.Int).SetString(strings.Trim(strings.TrimPrefix(rg[0], "(- "), ")"), 10)
		hi, _ := new(big.Int).SetString(rg[1], 10)
		size := new(big.Int).Add(new(big.Int).Add(lo, hi), big.NewInt(1))
		if rg[0] == "0" {
			return app("mod", r, size.String())
		}
		half := new(big.Int).Add(hi, big.NewInt(1))
		return app("-", app("mod", app("+", r, half.String()), size.String()), half.String())
	}
	vc.assumes["integer arithmetic in "+vc.key+" treated as mathematical (arith unchecked)"] = true
	return r
}

func (vc *VC) binop(x *ssa.BinOp) {
	a, b := vc.val(x.X), vc.val(x.Y)
	t := x.X.Type()
	switch {
	case isFloat(t):
		r := vc.floatOp(x.Op, a, b)
		if isFloat32(t) {
			switch x.Op {
			case token.ADD, token.SUB, token.MUL, token.QUO:
				// the float64 result rounded to float32 is the float32 result (53 >= 2*24+2: double rounding is innocuous)
				r = vc.round32(r)
			}
		}
		vc.setVal(x, r)
	case isString(t):
		switch x.Op {
		case token.ADD:
			vc.setVal(x, app("str.++", a, b))
		case token.EQL:
			vc.setVal(x, eq(a, b))
		case token.NEQ:
			vc.setVal(x, not(eq(a, b)))
		case token.LSS:
			vc.setVal(x, app("str.<", a, b))
		case token.LEQ:
			vc.setVal(x, app("str.<=", a, b))
		case token.GTR:
			vc.setVal(x, app("str.<", b, a))
		case token.GEQ:
			vc.setVal(x, app("str.<=", b, a))
		default:
			panic(unsupported("string op " + x.Op.String()))
		}
	case isBoolean(t):
		switch x.Op {
		case token.EQL:
			vc.setVal(x, eq(a, b))
		case token.NEQ:
			vc.setVal(x, not(eq(a, b)))
		case token.AND, token.LAND:
			vc.setVal(x, and(a, b))
		case token.OR, token.LOR:
			vc.setVal(x, or(a, b))
		default:
			panic(unsupported("bool op " + x.Op.String()))
		}
	case isInteger(t):
		switch x.Op {
		case token.ADD:
			if u, ok := x.X.(*ssa.UnOp); ok && u.Op == token.MUL {
				if al, ok := u.X.(*ssa.Alloc); ok && al.Comment == "rangeindex" {
					// the hidden counter of a range-over-slice loop: bounded by the slice length, never overflows
					vc.setVal(x, app("+", a, b))
					break
				}
			}
			vc.setVal(x, vc.arithResult(app("+", a, b), x.Type(), x.Pos()))
		case token.SUB:
			vc.setVal(x, vc.arithResult(app("-", a, b), x.Type(), x.Pos()))
		case token.MUL:
			vc.setVal(x, vc.arithResult(app("*", a, b), x.Type(), x.Pos()))
		case token.QUO:
			vc.safe("div", not(eq(b, "0")), x.Pos())
			vc.setVal(x, vc.arithResult(goDiv(a, b), x.Type(), x.Pos()))
		case token.REM:
			vc.safe("div", not(eq(b, "0")), x.Pos())
			vc.setVal(x, goRem(a, b))
		case token.EQL:
			vc.setVal(x, eq(a, b))
		case token.NEQ:
			vc.setVal(x, not(eq(a, b)))
		case token.LSS:
			vc.setVal(x, app("<", a, b))
		case token.LEQ:
			vc.setVal(x, app("<=", a, b))
		case token.GTR:
			vc.setVal(x, app(">", a, b))
		case token.GEQ:
			vc.setVal(x, app(">=", a, b))
		default:
			panic(unsupported("integer op " + x.Op.String()))
		}
	default:
		if _, isSlice := t.Underlying().(*types.Slice); isSlice {
			// a slice can only be compared with nil: the data pointer is tested
			other := a
			if c, ok := x.X.(*ssa.Const); ok && c.Value == nil {
				other = b
			}
			r := eq(app("ys.arr", other), "0")
			if x.Op == token.NEQ {
				r = not(r)
			}
			vc.setVal(x, r)
			return
		}
		// pointers, interfaces, channels, type-parameter values: only equality
		switch x.Op {
		case token.EQL:
			vc.setVal(x, eq(a, b))
		case token.NEQ:
			vc.setVal(x, not(eq(a, b)))
		default:
			panic(unsupported("op " + x.Op.String() + " on " + t.String()))
		}
	}
}

// Go's integer division truncates toward zero; SMT-LIB div/mod are Euclidean. With a literal
// divisor the exact (linear) definition is used; with a symbolic divisor the operators are
// uninterpreted functions constrained by the facts of DESIGN 3.3 (theorems of truncated division,
// audited separately), which keeps the queries linear.
func goDiv(a, b Term) Term {
	if isIntLit(b) && b != "0" {
		return ite(app(">=", a, "0"), app("div", a, b), app("-", app("div", app("-", a), b)))
	}
	return app("ys.quot", a, b)
}

func goRem(a, b Term) Term {
	if isIntLit(b) && b != "0" {
		return app("-", a, app("*", b, goDiv(a, b)))
	}
	return app("ys.rem", a, b)
}

const divAxioms = `(declare-fun ys.quot (Int Int) Int)
(declare-fun ys.rem (Int Int) Int)
(assert (forall ((a Int) (b Int)) (! (=> (and (<= 0 a) (< a b)) (= (ys.rem a b) a)) :pattern ((ys.rem a b)))))
(assert (forall ((a Int) (b Int)) (! (=> (and (<= b a) (< a (* 2 b)) (< 0 b)) (= (ys.rem a b) (- a b))) :pattern ((ys.rem a b)))))
(assert (forall ((a Int) (b Int)) (! (=> (and (<= 0 a) (< 0 b)) (and (<= 0 (ys.rem a b)) (< (ys.rem a b) b))) :pattern ((ys.rem a b)))))
(assert (forall ((a Int) (b Int)) (! (=> (and (<= 0 a) (< 0 b)) (and (<= 0 (ys.quot a b)) (<= (ys.quot a b) a))) :pattern ((ys.quot a b)))))
(assert (forall ((a Int) (b Int)) (! (=> (and (<= a 0) (< 0 b)) (and (<= a (ys.quot a b)) (<= (ys.quot a b) 0))) :pattern ((ys.quot a b)))))
(assert (forall ((a Int) (b Int)) (! (=> (and (<= 0 a) (< 0 b)) (<= (* b (ys.quot a b)) a)) :pattern ((ys.quot a b)))))`

func (vc *VC) floatOp(op token.Token, a, b Term) Term {
	switch op {
	case token.EQL:
		return app("fp.eq", a, b)
	case token.NEQ:
		return not(app("fp.eq", a, b))
	case token.LSS:
		return app("fp.lt", a, b)
	case token.LEQ:
		return app("fp.leq", a, b)
	case token.GTR:
		return app("fp.gt", a, b)
	case token.GEQ:
		return app("fp.geq", a, b)
	}
	names := map[token.Token][2]string{token.ADD: {"fp.add", "ys.fadd"}, token.SUB: {"fp.sub", "ys.fsub"}, token.MUL: {"fp.mul", "ys.fmul"}, token.QUO: {"fp.div", "ys.fdiv"}}
	n, ok := names[op]
	if !ok {
		panic(unsupported("float op " + op.String()))
	}
	if vc.floatMode == "ieee" {
		return app(n[0], "RNE", a, b)
	}
	vc.assumes["float64 arithmetic in "+vc.key+" is uninterpreted (float opaque): the proof holds for every interpretation of + - * /, IEEE-754 included"] = true
	return app(vc.ufloat(n[1]), a, b)
}

func (vc *VC) ufloat(name string) string {
	vc.reg.decl(name, fmt.Sprintf("(declare-fun %s (Float64 Float64) Float64)", name))
	return name
}

func (vc *VC) convert(x *ssa.Convert) {
	from, to := x.X.Type(), x.Type()
	v := vc.val(x.X)
	switch {
	case isInteger(from) && isInteger(to):
		vc.setVal(x, vc.intConv(v, to, x.Pos()))
	case isInteger(from) && isFloat(to):
		if isIntLit(v) {
			vc.vals[x] = intAsFloat(v)
		} else {
			vc.convFns()
			vc.setVal(x, app("ys.i2f", v))
		}
	case isFloat(from) && isInteger(to):
		// Go: a float->int conversion of a value that does not fit is implementation-defined (no
		// panic). The obligation "conv" states that the value fits; the result is then exact.
		vc.convFns()
		rg := intRanges[to.Underlying().(*types.Basic).Kind()]
		ok := app("ys.f2i.ok", v)
		r := vc.define("f2i", sInt, app("ys.f2i", v))
		if vc.floatMode == "ieee" {
			ok = and(ok, app("<=", rg[0], r), app("<=", r, rg[1]))
		}
		vc.safe("conv", ok, x.Pos())
		vc.assume(and(app("<=", rg[0], r), app("<=", r, rg[1])))
		vc.vals[x] = r
	case isFloat(from) && isFloat(to):
		// float32 values are carried in the Float64 sort (every float32 is a float64): widening is the
		// identity, narrowing rounds to the nearest float32
		if isFloat32(to) && !isFloat32(from) {
			vc.setVal(x, vc.round32(v))
		} else {
			vc.vals[x] = v
		}
	case isString(to) && isInteger(from):
		vc.setVal(x, app("str.from_code", v))
		vc.assumes["string(rune) restricted to code points below 256 that encode as one byte"] = true
	case isString(from) && isString(to):
		vc.vals[x] = v
	case isString(from):
		// []rune(s), []byte(s): abstract conversion functions
		et := to.Underlying().(*types.Slice).Elem()
		fn := "ys.str2" + typeKey(et)
		lenFn := sym(fn) + ".len"
		vc.reg.decl(fn, fmt.Sprintf("(declare-fun %s (String) (Array Int Int))", sym(fn)))
		if b, ok := et.Underlying().(*types.Basic); ok && b.Kind() == types.Int32 {
			lenFn = "ys.x.runeLen" // the same function as runeLen(s) in contracts
			vc.reg.decl("ys.x.runeLen", "(declare-fun ys.x.runeLen (String) Int)")
			// element k of []rune(s) is runeAt(s, k), the rune the k-th iteration of a range loop over s yields
			vc.reg.decl("ys.x.runeAt", "(declare-fun ys.x.runeAt (String Int) Int)")
			vc.reg.decl(fn+".at", fmt.Sprintf("(assert (forall ((s String) (k Int)) (! (= (select (%s s) k) (ys.x.runeAt s k)) :pattern ((select (%s s) k)))))", sym(fn), sym(fn)))
		} else {
			vc.reg.decl(lenFn, fmt.Sprintf("(declare-fun %s (String) Int)", lenFn))
		}
		vc.reg.decl(lenFn+".ax", fmt.Sprintf("(assert (forall ((s String)) (! (and (<= 0 (%s s)) (<= (%s s) (str.len s)) (=> (= (str.len s) 0) (= (%s s) 0)) (=> (> (str.len s) 0) (> (%s s) 0))) :pattern ((%s s)))))", lenFn, lenFn, lenFn, lenFn, lenFn))
		r := vc.alloc(vc.cur)
		comp, cs := vc.elemsComp(et)
		vc.setComp(vc.cur, comp, cs, app("store", vc.comp(vc.cur, comp, cs), r, app(sym(fn), v)))
		n := vc.define("n", sInt, app(lenFn, v))
		vc.setVal(x, app("ys.mkslice", r, "0", n, n))
	case isString(to):
		// string([]rune), string([]byte)
		et := from.Underlying().(*types.Slice).Elem()
		fn := sym("ys." + typeKey(et) + "2str")
		vc.reg.decl(fn, fmt.Sprintf("(declare-fun %s ((Array Int Int) Int Int) String)", fn))
		comp, cs := vc.elemsComp(et)
		vc.setVal(x, app(fn, app("select", vc.comp(vc.cur, comp, cs), app("ys.arr", v)), app("ys.off", v), app("ys.len", v)))
		if b, ok := et.Underlying().(*types.Basic); ok && b.Kind() == types.Uint8 {
			// string([]byte): one byte per element
			vc.assume(eq(app("str.len", vc.vals[x]), app("ys.len", v)))
		}
	default:
		if _, ok := to.Underlying().(*types.Pointer); ok {
			vc.vals[x] = v
			return
		}
		panic(unsupported(fmt.Sprintf("conversion %s -> %s", from, to)))
	}
}

// panicConds: the conditions (over the entry state) under which the contract declares a panic.
func (vc *VC) panicConds() []Term {
	var out []Term
	for _, c := range vc.decl.Clauses {
		if c.Kind == "panics" {
			ectx := vc.ctx(vc.entry, vc.entry)
			out = append(out, ectx.formula(c.E))
		}
	}
	return out
}

func successLike(x *ssa.Return) bool {
	if len(x.Results) == 0 {
		return true
	}
	last := x.Results[len(x.Results)-1]
	if types.Identical(last.Type(), types.Universe.Lookup("error").Type()) {
		c, isConst := last.(*ssa.Const)
		return isConst && c.IsNil()
	}
	return true
}

// exemptReturn: the contract declares this return unreachable under its precondition: `unreachable "text"`
// names it by a piece of the return statement's own source line (robust against line shifts).
func (vc *VC) exemptReturn(pos token.Pos) bool {
	line := vc.sourceLine(pos)
	for _, c := range vc.decl.Clauses {
		if c.Kind == "unreachable" && c.Label != "" && strings.Contains(line, c.Label) {
			return true
		}
	}
	return false
}

func (vc *VC) sourceLine(pos token.Pos) string {
	if !pos.IsValid() {
		return ""
	}
	p := vc.env.prog.Fset.Position(pos)
	data, ok := vc.env.overlay[p.Filename]
	if !ok {
		var err error
		data, err = os.ReadFile(p.Filename)
		if err != nil {
			return ""
		}
	}
	lines := strings.Split(string(data), "\n")
	if p.Line-1 < len(lines) {
		return lines[p.Line-1]
	}
	return ""
}

func isFloat32(t types.Type) bool {
	b, ok := t.Underlying().(*types.Basic)
	return ok && b.Kind() == types.Float32
}

// round32: the nearest float32 (ties to even), as a Float64 term.
func (vc *VC) round32(v Term) Term {
	if vc.floatMode == "ieee" {
		return fmt.Sprintf("((_ to_fp 11 53) RNE ((_ to_fp 8 24) RNE %s))", v)
	}
	vc.reg.decl("ys.r32", "(declare-fun ys.r32 (Float64) Float64)")
	return app("ys.r32", v)
}

// convFns declares the float<->int conversion functions. In ieee mode they are constrained by
// theorems of IEEE-754 / integer semantics (the conversion of an in-range value truncates; converting
// the truncated value back is exact); in opaque mode they are uninterpreted.
func (vc *VC) convFns() {
	if vc.reg.have["ys.f2i"] {
		return
	}
	d := "(declare-fun ys.f2i (Float64) Int)\n(declare-fun ys.i2f (Int) Float64)\n"
	if vc.floatMode == "ieee" {
		two63 := floatLit(9223372036854775808.0)
		d += fmt.Sprintf("(define-fun ys.f2i.ok ((x Float64)) Bool (and (not (fp.isNaN x)) (not (fp.isInfinite x)) (fp.lt x %s) (fp.geq x (fp.neg %s))))\n", two63, two63)
		d += "(assert (forall ((x Float64)) (! (=> (ys.f2i.ok x) (and (fp.eq (ys.i2f (ys.f2i x)) (fp.roundToIntegral RTZ x)) (<= (- 9223372036854775808) (ys.f2i x)) (<= (ys.f2i x) 9223372036854775807))) :pattern ((ys.f2i x)))))\n"
		d += "(assert (forall ((i Int)) (! (and (not (fp.isNaN (ys.i2f i))) (not (fp.isInfinite (ys.i2f i))) (not (and (fp.isZero (ys.i2f i)) (fp.isNegative (ys.i2f i)))) (= (fp.isZero (ys.i2f i)) (= i 0))) :pattern ((ys.i2f i)))))\n"
		d += fmt.Sprintf("(assert (forall ((i Int)) (! (=> (and (<= (- 9007199254740992) i) (<= i 9007199254740992)) (= (ys.f2i (ys.i2f i)) i)) :pattern ((ys.i2f i)))))\n")
		// truncation does not increase the magnitude
		two53 := floatLit(9007199254740992.0)
		d += fmt.Sprintf("(assert (forall ((x Float64)) (! (=> (and (ys.f2i.ok x) (fp.leq (fp.abs x) %s)) (and (<= (- 9007199254740992) (ys.f2i x)) (<= (ys.f2i x) 9007199254740992))) :pattern ((ys.f2i x)))))", two53)
	} else {
		d += "(declare-fun ys.f2i.ok (Float64) Bool)"
	}
	vc.reg.decl("ys.f2i", d)
}

func (vc *VC) intConv(v Term, to types.Type, pos token.Pos) Term {
	rg, ok := intRanges[to.Underlying().(*types.Basic).Kind()]
	if !ok {
		return v
	}
	switch vc.arith {
	case "checked":
		vc.safe("ovf", and(app("<=", rg[0], v), app("<=", v, rg[1])), pos)
		return v
	case "wrap":
		return vc.arithResult(v, to, pos)
	}
	return v
}

// ---- return ----------------------------------------------------------------------------------------

func (vc *VC) ret(x *ssa.Return) {
	if len(vc.inl) > 0 {
		// return of an inlined callee: the path continues in the caller
		f := vc.inl[len(vc.inl)-1]
		var rs []Term
		for _, r := range x.Results {
			rs = append(rs, vc.val(r))
		}
		f.retReach = append(f.retReach, vc.curReach)
		f.retState = append(f.retState, vc.cur)
		f.retVals = append(f.retVals, rs)
		return
	}
	vc.rets++
	k := vc.rets - 1
	var rs []Term
	for _, r := range x.Results {
		rs = append(rs, vc.val(r))
	}
	// ghost exit blocks run before the postcondition is checked
	for _, c := range vc.decl.Clauses {
		if c.Kind == "ghost" && c.Anchor == "exit" {
			vc.ghostBlock(c, vc.cur, vc.entry, rs)
		}
	}
	ctx := vc.ctx(vc.cur, vc.entry)
	ctx.bindResults(rs)
	vc.retReach = append(vc.retReach, vc.curReach)
	// vacuity: every return must be reachable under the precondition and everything assumed on the way (an
	// unreachable return makes its postconditions hold vacuously); `unreachable "ret k"` in a contract exempts one
	// Error returns (a non-constant last result of type error) are left out: with exact external contracts many
	// defensive error paths (an I/O error of a strings.Reader) are unreachable, which is harmless. A return
	// that reports success, or a return of a function without an error result, must be reachable.
	if !vc.exemptReturn(x.Pos()) && successLike(x) {
		vc.oblige("cover", fmt.Sprintf("return-%d-reachable", k), "false", x.Pos()).Expect = "fail"
	}
	for i, c := range vc.decl.Clauses {
		if c.Kind == "panics" {
			// the function returns only when the declared panic condition does not hold: it panics exactly then
			ectx := vc.ctx(vc.entry, vc.entry)
			vc.oblige("panics", fmt.Sprintf("returns-only-if-not:%s@ret%d", labelOr(c.Label, i), k), not(ectx.formula(c.E)), x.Pos())
		}
	}
	// the returned values are part of a counterexample (used by the replay)
	savedWitness := vc.witness
	for i, r := range rs {
		vc.witness = append(append([]namedTerm{}, vc.witness...), namedTerm{fmt.Sprintf("result%d", i), r, vc.reg.sortOf(x.Results[i].Type())})
	}
	defer func() { vc.witness = savedWitness }()
	for i, c := range vc.decl.Clauses {
		if c.Kind == "ensures" {
			if strings.HasPrefix(c.Label, "assumed:") {
				// visible to callers, not an obligation of the body: listed as an assumption
				vc.assumes["assumed postcondition of "+vc.key+": "+strings.TrimPrefix(c.Label, "assumed:")] = true
				continue
			}
			vc.oblige("ensures", fmt.Sprintf("%s@ret%d", labelOr(c.Label, i), k), ctx.formula(c.E), x.Pos())
		}
	}
	vc.frame(x.Pos(), k)
}

// frame: every component that differs from its entry value agrees with it on all locations that
// were allocated at entry and are not listed in a modifies clause.
func (vc *VC) frame(pos token.Pos, k int) {
	ctx := vc.ctx(vc.entry, vc.entry)
	allowed := map[string][]Term{} // comp -> refs that may change; nil entry + whole[comp] = whole component
	whole := map[string]bool{}
	for _, c := range vc.decl.Clauses {
		if c.Kind == "modifies" {
			for _, m := range c.Mods {
				for _, tg := range ctx.modTargets(m) {
					if tg.whole {
						whole[tg.comp] = true
					} else {
						allowed[tg.comp] = append(allowed[tg.comp], tg.ref)
					}
				}
			}
		}
	}
	var names []string
	for c := range vc.cur.comps {
		names = append(names, c)
	}
	sort.Strings(names)
	entryNext := vc.compEntry(compNext, sInt)
	for _, c := range names {
		if c == compNext || strings.HasPrefix(c, "I.") || strings.HasPrefix(c, "R.") || strings.HasPrefix(c, "L.") || whole[c] {
			continue
		}
		cur := vc.cur.comps[c]
		init := vc.compInit[c]
		if cur == init {
			continue
		}
		s := vc.compSort[c]
		if !strings.HasPrefix(s, "(Array Int ") {
			// a ghost variable (single value)
			vc.oblige("frame", fmt.Sprintf("%s@ret%d", strings.TrimPrefix(c, "G.var."), k), eq(cur, init), pos)
			continue
		}
		conds := []Term{app("<", "0", rootOf("r")), app("<", rootOf("r"), entryNext)}
		for _, a := range allowed[c] {
			conds = append(conds, not(eq("r", a)))
		}
		goal := fmt.Sprintf("(forall ((r Int)) %s)", implies(and(conds...), eq(app("select", cur, "r"), app("select", init, "r"))))
		vc.oblige("frame", fmt.Sprintf("%s@ret%d", c, k), goal, pos)
	}
}
