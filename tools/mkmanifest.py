#!/usr/bin/env python3
"""Regenerates MANIFEST.json from tools/manifest_src.json (claimed checks) + properties.jsonl."""
import json, subprocess, os
root = os.path.dirname(os.path.dirname(os.path.abspath(__file__)))
props = [json.loads(l) for l in open(os.path.join(root, 'properties.jsonl'))]
src = json.load(open(os.path.join(root, 'tools', 'manifest_src.json')))
claimed = {c['property_id'] for c in src['checks']}
checks = []
for c in src['checks']:
    pid = c['property_id']
    checks.append({
        "property_id": pid,
        "quick_cmd": f"./bin/check {pid} --tier quick",
        "thorough_cmd": f"./bin/check {pid} --tier thorough",
        "evidence_file": f"/verif/evidence/{pid}.json",
        "replay_cmd_template": "./bin/check --replay {path}",
        "engine": "govc",
        "level_claimed": {"category": c['category'], "text": c['text'], "design_ref": c.get('design_ref', 'DESIGN.md section 4')},
        "level_note": c['level_note'],
        "technique": c['technique'],
    })
na = [{"property_id": p['id'], "reason": src['not_applicable'].get(p['id'], "proved part not built yet (DESIGN.md section 8: a property is claimed only once its obligations exist and discharge stably)")}
      for p in props if p['id'] not in claimed]
hooks = subprocess.run(['git', '-C', '/repo', 'log', '--format=%H %s'], capture_output=True, text=True).stdout.splitlines()
hook_commits = [l.split()[0] for l in hooks if 'verif hook' in l]
m = {"version": 1, "setup_cmd": "./bin/setup",
     "hooks": {"guard": "verif",
               "enable": "go build -tags verif ./...  (the hook files contracts_verif.go are comment-only; /verif/govc loads /repo with -tags=verif and reads their //@ lines)",
               "baseline_off_cmd": "cd /repo && go test -vet=off -count=1 ./...",
               "source_commits": hook_commits, "add_only": True},
     "engines": [{"name": "govc", "path": "govc", "serves_properties": sorted(claimed),
                  "kind_free_text": "contract-based deductive verifier for Go written for this task: go/ssa (NaiveForm) of the real functions -> verification conditions in SMT-LIB (component heap, frames, loop invariants, ghost state), contracts as //@ comments in guarded files in /repo, obligations discharged by z3 5.1.0 / cvc5 1.0 / z3 4.8.12 raced per obligation"}],
     "checks": checks, "notes": src.get('notes', ''), "not_applicable": na}
json.dump(m, open(os.path.join(root, 'MANIFEST.json'), 'w'), indent=1)
print("MANIFEST.json:", len(checks), "checks,", len(na), "not applicable,", len(hook_commits), "hook commits")
