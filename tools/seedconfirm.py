#!/usr/bin/env python3
"""tools/seedconfirm.py <seed-id> <title> : confirm a sub-agent's seeded change found in /tmp/seedwt/<id>/seed in a fresh scratch
worktree of /repo HEAD (suite passes with the patch, demo fails with it and passes without it), then store it as
/verif/seeded/<id>/ (patch.diff, seed_demo_test.go, notes.md, meta.json). The scratch worktree is removed afterwards."""
import json, os, re, shutil, subprocess, sys
sid, title = sys.argv[1], sys.argv[2]
src = f'/tmp/seedwt/{sid}/seed'
wt = f'/tmp/confirm/{sid}'
env = dict(os.environ, GOFLAGS='-mod=mod', GOPROXY='off', GOSUMDB='off', GOTOOLCHAIN='local')
def sh(cmd, cwd=None):
    r = subprocess.run(cmd, shell=True, cwd=cwd, env=env, capture_output=True, text=True)
    return r.returncode, (r.stdout + r.stderr)
os.makedirs('/tmp/confirm', exist_ok=True)
sh(f'git -C /repo worktree remove --force {wt}')
rc, out = sh(f'git -C /repo worktree add --detach {wt} HEAD'); assert rc == 0, out
try:
    demo = open(f'{src}/seed_demo_test.go').read()
    m = re.search(r'package-dir:\s*(\S+)', demo); pkgdir = m.group(1) if m else '.'
    rc, out = sh(f'git apply {src}/patch.diff', wt); assert rc == 0, 'patch does not apply: ' + out
    rc_suite, out_suite = sh('go build ./... && go test -vet=off -count=1 ./...', wt)
    shutil.copy(f'{src}/seed_demo_test.go', f'{wt}/{pkgdir}/seed_demo_test.go')
    rc_with, out_with = sh(f'go test -vet=off -count=1 -timeout 120s -run TestSeed ./{pkgdir}', wt)
    rc, out = sh(f'git apply -R {src}/patch.diff', wt); assert rc == 0, out
    rc_without, out_without = sh(f'go test -vet=off -count=1 -timeout 120s -run TestSeed ./{pkgdir}', wt)
    ok = rc_suite == 0 and rc_with != 0 and rc_without == 0 and 'ok' in out_without
    print(sid, 'suite', 'PASS' if rc_suite == 0 else 'FAIL', '| demo with patch', 'FAIL' if rc_with else 'PASS', '| demo without', 'PASS' if rc_without == 0 else 'FAIL', '=>', 'CONFIRMED' if ok else 'REJECTED')
    if not ok:
        print(out_suite[-800:], out_with[-500:], out_without[-800:]); sys.exit(1)
    dst = f'/verif/seeded/{sid}'; os.makedirs(dst, exist_ok=True)
    for f in ('patch.diff', 'seed_demo_test.go', 'notes.md'): shutil.copy(f'{src}/{f}', f'{dst}/{f}')
    notes = open(f'{src}/notes.md').read()
    meta = {'id': sid, 'property': sid.split('-')[0], 'round': 4, 'title': title,
            'needs_to_manifest': notes[:1500],
            'demo': {'file': 'seed_demo_test.go', 'package_dir': pkgdir, 'run': f'go test -vet=off -count=1 -run TestSeed ./{pkgdir}'},
            'origin': 'fresh sub-agent (fifth batch) given only the property text and a scratch worktree without the contract files',
            'confirmed': {'how': 'tools/seedconfirm.py: fresh scratch worktree of /repo HEAD under /tmp (removed afterwards): git apply patch.diff; go build ./... && go test -vet=off -count=1 ./... ; demo copied into its package and run with the patch and after git apply -R',
                          'suite_with_patch': 'PASS (all packages ok)', 'demo_with_patch': 'FAIL', 'demo_without_patch': 'PASS'}}
    json.dump(meta, open(f'{dst}/meta.json', 'w'), indent=1)
finally:
    sh(f'git -C /repo worktree remove --force {wt}')
