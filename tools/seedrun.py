#!/usr/bin/env python3
"""tools/seedrun.py [--also Cxx,...] [seed ids...]: run the registered check of each seeded change's property on the
tree with the change applied (through an overlay: /repo is not touched) and record the outcome in seeded/<id>/meta.json
and seeded/RESULTS.md. A seeded change is CAUGHT when the check exits 1 with a VIOLATION line."""
import json, os, subprocess, sys, time, concurrent.futures as cf
root = os.path.dirname(os.path.dirname(os.path.abspath(__file__)))
os.chdir(root)
args = [a for a in sys.argv[1:] if not a.startswith('--')]
also = []
for a in sys.argv[1:]:
    if a.startswith('--also='): also = a.split('=')[1].split(',')
ids = args or sorted(os.listdir('seeded'))
ids = [i for i in ids if os.path.isdir(f'seeded/{i}')]
env = dict(os.environ, GOFLAGS='-mod=vendor', GOPROXY='off', GOSUMDB='off', GOTOOLCHAIN='local')
def run(sid):
    meta = json.load(open(f'seeded/{sid}/meta.json'))
    out = {}
    for prop in [meta['property']] + also:
        if not os.path.exists(f'props/{prop}.json'):
            out[prop] = {'status': 'no check registered for this property'}; continue
        t = time.time()
        r = subprocess.run(['./bin/govc', 'check', '-no-evidence', '-mutant', f'seeded/{sid}/patch.diff', prop], capture_output=True, text=True, env=env)
        viol = [l for l in r.stdout.splitlines() if l.startswith('VIOLATION')]
        status = 'CAUGHT' if r.returncode == 1 and viol else ('MISSED' if r.returncode == 0 else f'ERROR (exit {r.returncode})')
        out[prop] = {'status': status, 'seconds': round(time.time() - t), 'violations': [v.split('replay=')[1].split('/')[-1].split('.json')[0] for v in viol][:6],
                     'tail': r.stdout.strip().splitlines()[-1][:300] if status.startswith('ERROR') and r.stdout.strip() else ''}
    meta['checks'] = {**meta.get('checks', {}), **out}
    json.dump(meta, open(f'seeded/{sid}/meta.json', 'w'), indent=1)
    return sid, out
with cf.ThreadPoolExecutor(max_workers=2) as ex:
    for sid, out in ex.map(run, ids):
        for p, o in out.items():
            print(f'{sid:7} {p} {o["status"]:8} {o.get("seconds","")}s {", ".join(o.get("violations", []))[:160]} {o.get("tail","")}', flush=True)
# summary
rows = []
for sid in sorted(os.listdir('seeded')):
    if not os.path.isdir(f'seeded/{sid}'): continue
    m = json.load(open(f'seeded/{sid}/meta.json'))
    for p, o in m.get('checks', {}).items():
        rows.append(f'| {sid} | {m["title"][:70]} | {p} | {o["status"]} | {", ".join(o.get("violations", [])[:2])} |')
open('seeded/RESULTS.md', 'w').write('| seed | change | check | outcome | first failing obligations |\n|---|---|---|---|---|\n' + '\n'.join(rows) + '\n')
